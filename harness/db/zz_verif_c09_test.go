//go:build verif

package db

import (
	"fmt"
	"os"
	"sort"
	"strings"
	"testing"

	sgbucket "github.com/couchbase/sg-bucket"
	"github.com/couchbase/sync_gateway/base"
	"github.com/couchbase/sync_gateway/verifshim/vreport"
	"github.com/couchbase/sync_gateway/verifshim/vsched"
)

// C09 — external writes are imported exactly once; the gateway's own writes never are.
// E1 at database level (automatic import off): controlled threads perform external set / delete through the
// hooked store, gateway reads (on-demand import), gateway writes, and feed imports (the real
// importListener.ImportFeedEvent fed with a snapshot of the document, delivered once or twice). The
// serialised order of successful mutations of the document key, taken from the store log, decides.

type c09Scenario struct {
	Ops     []string `json:"ops"`     // per thread: xset1 | xset2 | xdel | get | syncdata | resync | put | feed | feed2
	Initial string   `json:"initial"` // absent | sgdoc | sgdoc+ext (a gateway document overwritten externally, not yet imported)
}

func (s c09Scenario) name() string { return strings.Join(s.Ops, " || ") + "|initial=" + s.Initial }

const c09Doc = "ext"

func c09Build(t testing.TB, r *vreport.Report, sc c09Scenario) vsched.Scenario {
	MaxSequenceIncrFrequency = 0
	v := newVDB(t, DatabaseContextOptions{})
	ctx, coll := v.ctx, v.coll
	H := v.vb.H
	if _, err := coll.UpdateSyncFun(ctx, `function(doc){ channel(doc.channels); }`); err != nil {
		t.Fatalf("sync function: %v", err)
	}
	H.Enabled = true
	initialGen := 0
	if sc.Initial == "sgdoc" {
		if _, _, err := coll.Put(ctx, c09Doc, Body{"channels": []string{"A"}, "v": "sg0"}); err != nil {
			t.Fatalf("setup: %v", err)
		}
		initialGen = 1
	}
	if sc.Initial == "sgdoc+ext" {
		if _, _, err := coll.Put(ctx, c09Doc, Body{"channels": []string{"A"}, "v": "sg0"}); err != nil {
			t.Fatalf("setup: %v", err)
		}
		initialGen = 1
	}
	il := NewImportListener(ctx, "c09", v.db.DatabaseContext)
	il.collections[coll.GetCollectionID()] = *coll
	xattrKeys := []string{base.SyncXattrName, base.VvXattrName, base.MouXattrName, base.GlobalXattrName}
	startLog := len(H.Snapshot())
	if sc.Initial == "sgdoc+ext" {
		if err := coll.dataStore.SetRaw(ctx, c09Doc, 0, nil, []byte(`{"channels":["C"],"v":"ext0"}`)); err != nil {
			t.Fatalf("setup external write: %v", err)
		}
	}
	kind := make([]string, len(sc.Ops))
	errs := make([]error, len(sc.Ops))
	threads := make([]func(), len(sc.Ops))
	for i, op := range sc.Ops {
		i, op := i, op
		kind[i] = op
		threads[i] = func() {
			switch op {
			case "xset1", "xset2":
				// the two external bodies route to different channels, so that an import of a stale body is visible
				ch := map[string]string{"xset1": "A", "xset2": "B"}[op]
				errs[i] = coll.dataStore.SetRaw(ctx, c09Doc, 0, nil, []byte(fmt.Sprintf(`{"channels":["%s"],"v":"%s-t%d"}`, ch, op, i)))
			case "xdel":
				err := coll.dataStore.Delete(ctx, c09Doc)
				if err != nil && !base.IsDocNotFoundError(err) {
					errs[i] = err
				}
			case "get":
				_, err := coll.GetDocument(ctx, c09Doc, DocUnmarshalAll)
				if err != nil && !base.IsDocNotFoundError(err) {
					errs[i] = err
				}
			case "syncdata":
				// metadata read used by the changes feed and the channel-history API; imports on demand
				_, err := coll.GetDocSyncData(ctx, c09Doc)
				if err != nil && !base.IsDocNotFoundError(err) {
					errs[i] = err
				}
			case "resync":
				// a metadata-only rewrite by the gateway (resync with regenerated sequence): neither an import nor a new revision
				err := coll.ResyncDocument(ctx, c09Doc, nil, true)
				if err != nil && err != base.ErrUpdateCancel && !base.IsDocNotFoundError(err) {
					errs[i] = err
				}
			case "put":
				// a gateway write on top of whatever the gateway currently sees
				doc, err := coll.GetDocument(ctx, c09Doc, DocUnmarshalSync)
				body := Body{"channels": []string{"A"}, "v": fmt.Sprintf("sgput-t%d", i)}
				if err == nil && doc != nil && !doc.IsDeleted() {
					body[BodyRev] = doc.GetRevTreeID()
				}
				_, _, err = coll.Put(ctx, c09Doc, body)
				if status, _ := base.ErrorAsHTTPStatus(err); err != nil && status != 409 {
					errs[i] = err
				}
			case "feed", "feed2":
				// what the mutation feed delivers: a snapshot of the document as of some mutation
				raw, xattrs, cas, err := coll.dataStore.GetWithXattrs(ctx, c09Doc, xattrKeys)
				if err != nil && raw == nil && len(xattrs) == 0 {
					return // nothing to deliver
				}
				var xs []sgbucket.Xattr
				for _, k := range xattrKeys {
					if val, ok := xattrs[k]; ok && len(val) > 0 {
						xs = append(xs, sgbucket.Xattr{Name: k, Value: val})
					}
				}
				ev := sgbucket.FeedEvent{Opcode: sgbucket.FeedOpMutation, Key: []byte(c09Doc), Cas: cas, CollectionID: coll.GetCollectionID(), DataType: base.MemcachedDataTypeJSON}
				if raw == nil {
					ev.Opcode = sgbucket.FeedOpDeletion
				}
				if len(xs) > 0 {
					ev.DataType |= base.MemcachedDataTypeXattr
					ev.Value = sgbucket.EncodeValueWithXattrs(raw, xs...)
				} else {
					ev.Value = raw
				}
				n := 1
				if op == "feed2" {
					n = 2
				}
				for k := 0; k < n; k++ {
					il.ProcessFeedEvent(ev)
				}
			}
		}
	}
	H.Schedule = true
	return vsched.Scenario{
		Threads: threads,
		Cleanup: v.close,
		Check: func(x *vsched.Exec) map[string]string {
			viol := map[string]string{}
			name := sc.name()
			H.Schedule = false
			for i, e := range errs {
				if e != nil {
					viol["C09/op-failed/"+kind[i]] = fmt.Sprintf("thread %d %s: %v [%s]", i, kind[i], e, name)
				}
			}
			// quiesce: one more gateway read imports whatever external write is still pending
			mark := len(H.Snapshot())
			doc, err := coll.GetDocument(ctx, c09Doc, DocUnmarshalAll)
			if err != nil && !base.IsDocNotFoundError(err) {
				viol["C09/final-read-failed"] = err.Error()
				return viol
			}
			// a second read must not write anything (no import loop)
			mark2 := len(H.Snapshot())
			_, _ = coll.GetDocument(ctx, c09Doc, DocUnmarshalAll)
			for _, rec := range H.Snapshot()[mark2:] {
				if rec.Key == c09Doc && rec.Write && rec.Applied {
					viol["C09/import-loop/read-after-quiescence-writes"] = fmt.Sprintf("a second gateway read wrote the document again (%s) [%s]", rec.Op, name)
				}
			}
			_ = mark
			// serialised successful mutations of the key
			type mut struct {
				class  string // E external, G gateway
				thread int
				op     string
			}
			var muts []mut
			for _, rec := range H.Snapshot()[startLog:] {
				if rec.Key != c09Doc || !rec.Write || !rec.Applied {
					continue
				}
				switch rec.Op {
				case "SetRaw", "Delete":
					muts = append(muts, mut{"E", rec.Thread, rec.Op})
				case "WriteUpdateWithXattrs.write":
					if rec.Thread >= 0 && rec.Thread < len(kind) && kind[rec.Thread] == "resync" {
						muts = append(muts, mut{"R", rec.Thread, rec.Op}) // metadata-only rewrite: neither an import nor a revision
					} else {
						muts = append(muts, mut{"G", rec.Thread, rec.Op})
					}
				}
			}
			var order []string
			gWrites := 0
			lastE := -1
			for i, m := range muts {
				order = append(order, fmt.Sprintf("%s(t%d)", m.class, m.thread))
				if m.class == "E" {
					lastE = i
					continue
				}
				if m.class == "R" {
					continue
				}
				gWrites++
				isPutThread := m.thread >= 0 && m.thread < len(kind) && kind[m.thread] == "put"
				prev := i - 1
				for prev >= 0 && muts[prev].class == "R" {
					prev--
				}
				prevIsE := prev >= 0 && muts[prev].class == "E"
				if !prevIsE {
					// a gateway write not directly after an external write is legitimate only as the put of a put thread
					if !isPutThread {
						who := "final read"
						if m.thread >= 0 && m.thread < len(kind) {
							who = kind[m.thread]
						}
						viol["C09/import-without-external-write/"+who] = fmt.Sprintf("mutation %d of the key is a gateway write by %s although no external write precedes it: order %v [%s]", i, who, order, name)
					}
				}
			}
			r.Distinct("mutation_orders", name+"|"+strings.Join(order, ""))
			// An external delete directly followed by an external set resurrects the key without any metadata: the
			// bucket itself discards the gateway's history (and the sequences it carried). The counting clauses do not apply.
			historyDestroyed := false
			for i := 1; i < len(muts); i++ {
				if muts[i-1].class == "E" && muts[i-1].op == "Delete" && muts[i].class == "E" && muts[i].op == "SetRaw" {
					historyDestroyed = true
				}
			}
			if historyDestroyed {
				r.Add("executions_with_history_destroyed_by_external_delete_then_set", 1)
			}
			if doc == nil {
				if lastE >= 0 && muts[lastE].op != "Delete" && len(muts) > 0 {
					viol["C09/external-write-not-visible"] = fmt.Sprintf("the document is not visible through the gateway although the last external write was a set: order %v [%s]", order, name)
				}
				return c09Done(viol)
			}
			if os.Getenv("VERIF_DEBUG") != "" {
				rawD, xD, casD, _ := coll.dataStore.GetWithXattrs(ctx, c09Doc, xattrKeys)
				fmt.Printf("DEBUG final doc: current=%s deleted=%v revs=%v body=%q raw=%q cas=%d sync=%s\n", doc.GetRevTreeID(), doc.IsDeleted(), c05Revs(doc), func() string { b, _ := doc.BodyBytes(ctx); return string(b) }(), rawD, casD, xD[base.SyncXattrName])
				for _, rec := range H.Snapshot()[startLog:] {
					fmt.Printf("DEBUG   op %+v\n", rec)
				}
			}
			gen, _ := ParseRevID(ctx, doc.GetRevTreeID())
			if gen != initialGen+gWrites && !historyDestroyed {
				viol["C09/revision-count"] = fmt.Sprintf("the document is at generation %d (history %v), expected %d initial + %d gateway/import writes: order %v [%s]", gen, c05Revs(doc), initialGen, gWrites, order, name)
			}
			if leaves := doc.History.GetLeaves(); len(leaves) != 1 {
				viol["C09/history-branched"] = fmt.Sprintf("history has leaves %v: %v [%s]", leaves, c05Revs(doc), name)
			}
			for id, ri := range doc.History {
				if ri.Parent != "" {
					pg, _ := ParseRevID(ctx, ri.Parent)
					g, _ := ParseRevID(ctx, id)
					if g != pg+1 {
						viol["C09/import-parent-not-previous-revision"] = fmt.Sprintf("revision %s has parent %s [%s]", id, ri.Parent, name)
					}
				}
			}
			// every external set must have been imported by the time the gateway has read the document
			if lastE >= 0 && muts[lastE].op == "SetRaw" {
				imported := false
				for _, m := range muts[lastE+1:] {
					if m.class == "G" {
						imported = true
					}
				}
				if !imported {
					viol["C09/external-write-never-imported"] = fmt.Sprintf("the last external write is not followed by any import although the gateway has read the document since (current revision %s): order %v [%s]", doc.GetRevTreeID(), order, name)
				}
			}
			// body: latest external write if it was not followed by a gateway put
			raw, _, _ := coll.dataStore.GetRaw(ctx, c09Doc)
			bodyBytes, _ := doc.BodyBytes(ctx)
			if lastE >= 0 && muts[lastE].op == "SetRaw" {
				lastPutAfter := false
				for _, m := range muts[lastE+1:] {
					if m.thread >= 0 && m.thread < len(kind) && kind[m.thread] == "put" {
						lastPutAfter = true
					}
				}
				if !lastPutAfter {
					if doc.IsDeleted() {
						viol["C09/external-write-not-visible"] = fmt.Sprintf("gateway shows a deleted document although the last external write was a set: order %v [%s]", order, name)
					} else if string(bodyBytes) != string(raw) {
						viol["C09/body-not-latest-external-write"] = fmt.Sprintf("gateway body %s, bucket body %s: order %v [%s]", bodyBytes, raw, order, name)
					} else {
						// the import that made the external write visible must have been an import of THAT write: channel
						// routing, the revision id (a digest of the imported body) and the cached revision all derive from it
						var parsed struct {
							Channels []string `json:"channels"`
						}
						_ = base.JSONUnmarshal(raw, &parsed)
						var active []string
						for name, rem := range doc.Channels {
							if rem == nil {
								active = append(active, name)
							}
						}
						sort.Strings(active)
						sort.Strings(parsed.Channels)
						if strings.Join(active, ",") != strings.Join(parsed.Channels, ",") {
							viol["C09/imported-revision-routed-by-another-body"] = fmt.Sprintf("document is in channels %v, its body %s assigns %v: order %v [%s]", active, raw, parsed.Channels, order, name)
						}
						cur := doc.GetRevTreeID()
						g, _ := ParseRevID(ctx, cur)
						if want := CreateRevIDWithBytes(g, doc.History[cur].Parent, raw); want != cur {
							viol["C09/imported-revision-id-not-from-the-imported-body"] = fmt.Sprintf("current revision %s, the digest of (generation, parent %s, body %s) is %s: order %v [%s]", cur, doc.History[cur].Parent, raw, want, order, name)
						}
						if rev, err := coll.GetRev(ctx, c09Doc, "", false, nil); err == nil && string(rev.BodyBytes) != string(raw) {
							viol["C09/cached-revision-body-differs"] = fmt.Sprintf("the revision served for the current revision has body %s, the bucket holds %s: order %v [%s]", rev.BodyBytes, raw, order, name)
						}
					}
				}
			}
			if lastE >= 0 && muts[lastE].op == "Delete" && lastE == len(muts)-2 && !doc.IsDeleted() {
				// root cause: did the importing thread read the document before the delete (its import raced with it)?
				cause := "import-started-after-the-delete"
				importer := muts[len(muts)-1].thread
				sawDelete := false
				for _, rec := range H.Snapshot()[startLog:] {
					if rec.Key != c09Doc {
						continue
					}
					if rec.Op == "Delete" && rec.Applied {
						sawDelete = true
					}
					if rec.Thread == importer && !rec.Write && !sawDelete {
						cause = "import-started-before-the-delete"
					}
				}
				viol["C09/external-delete-not-imported/"+cause] = fmt.Sprintf("last external operation was a delete followed by one import, but the gateway shows a live document: order %v [%s]", order, name)
			}
			if !historyDestroyed {
				v.accountSequences(viol, "C09/sequences", name, []string{c09Doc}, nil)
			}
			return c09Done(viol)
		},
	}
}

func c09Done(v map[string]string) map[string]string {
	if len(v) == 0 {
		return nil
	}
	return v
}

type c09Replay struct {
	Sc     c09Scenario          `json:"sc"`
	Prefix []vsched.PrefixEntry `json:"prefix"`
	Bound  int                  `json:"bound"`
}

func TestVerifC09(t *testing.T) {
	r := vreport.Begin("C09")
	defer r.Finish(t)
	r.Rule("scenarios = 2-3 threads from {external set (two bodies routed to different channels), external delete, gateway read, gateway metadata read, metadata-only gateway rewrite (resync), gateway write, feed import of a snapshot delivered once or twice} on one document that is initially absent, a gateway document, or a gateway document overwritten externally and not yet imported; every schedule with at most B preemptions at storage operations on a fresh database; non-trivial = distinct (scenario, schedule)")
	r.Assume("automatic import is off: the feed path is driven by calling the real importListener.ProcessFeedEvent with an event built from a snapshot of the document (what the mutation feed delivers); user-xattr-only external writes are not in the alphabet")
	oldFreq := MaxSequenceIncrFrequency
	defer func() { MaxSequenceIncrFrequency = oldFreq }()
	mk := func(sc c09Scenario, bound int) vsched.Config {
		return vsched.Config{
			Name:   sc.name(),
			Bound:  bound,
			New:    func() vsched.Scenario { return c09Build(t, r, sc) },
			Filter: c05Filter,
			Whole:  true,
			Replay: func(name string, p []vsched.PrefixEntry) any { return c09Replay{Sc: sc, Prefix: p, Bound: bound} },
		}
	}
	var rc c09Replay
	if r.Replaying(&rc) {
		vsched.ReplayOne(r, mk(rc.Sc, rc.Bound), rc.Prefix)
		return
	}
	type job struct {
		sc    c09Scenario
		bound int
	}
	var jobs []job
	pairs := [][]string{{"xset1", "get"}, {"xset1", "feed"}, {"xset1", "feed2"}, {"xset1", "put"}, {"xset1", "xset2"}, {"xdel", "get"}, {"xdel", "feed"},
		{"get", "feed"}, {"get", "get"}, {"feed", "feed2"}, {"put", "feed"}, {"put", "get"}, {"xset1", "xdel"}}
	for _, p := range pairs {
		for _, init := range []string{"absent", "sgdoc"} {
			jobs = append(jobs, job{c09Scenario{Ops: p, Initial: init}, 2})
		}
	}
	for _, p := range [][]string{{"get", "xset2"}, {"syncdata", "xset2"}, {"syncdata", "xset1"}, {"resync", "get"}, {"resync", "xset2"}, {"resync", "feed"}, {"syncdata", "feed"}, {"get", "xdel"}} {
		jobs = append(jobs, job{c09Scenario{Ops: p, Initial: "sgdoc+ext"}, 2})
	}
	for _, p := range [][]string{{"xset1", "syncdata"}, {"xset1", "resync"}} {
		jobs = append(jobs, job{c09Scenario{Ops: p, Initial: "sgdoc"}, 2})
	}
	tb := 1
	if r.Thorough() {
		tb = 2
	}
	triples := [][]string{{"xset1", "syncdata", "xset2"}, {"xset1", "resync", "get"}, {"xset1", "get", "feed"}, {"xset1", "feed", "feed2"}, {"xset1", "put", "feed"}, {"xset1", "xset2", "get"}, {"xset1", "get", "get"}, {"xdel", "get", "feed"}, {"xset1", "put", "get"}}
	for _, p := range triples {
		for _, init := range []string{"absent", "sgdoc"} {
			jobs = append(jobs, job{c09Scenario{Ops: p, Initial: init}, tb})
		}
	}
	sort.SliceStable(jobs, func(i, j int) bool { return len(jobs[i].sc.Ops) > len(jobs[j].sc.Ops) })
	r.Note("scenarios", len(jobs))
	for i, j := range jobs {
		if !r.Mine(i) {
			continue
		}
		if r.Expired() {
			r.Cap("time budget reached before all scenarios were explored")
			break
		}
		if vsched.FreePass(r.Add, func() vsched.Scenario { return c09Build(t, r, j.sc) }) {
			continue // race-detector pass: the same thread bodies, free-running, in a binary built with -race
		}
		vsched.Explore(r, mk(j.sc, j.bound))
		r.Add("scenarios", 1)
	}
	if vsched.FreeRuns() == 0 {
		r.Add("distinct_nontrivial", r.Get("schedules"))
	}
}
