//go:build verif

package db

import (
	"fmt"
	"sort"
	"strings"
	"testing"

	sgbucket "github.com/couchbase/sg-bucket"
	"github.com/couchbase/sync_gateway/base"
	"github.com/couchbase/sync_gateway/verifshim/vreport"
	"github.com/couchbase/sync_gateway/verifshim/vsched"
)

// C09 — external writes are imported exactly once; the gateway's own writes never are.
// E1 at database level (automatic import off): controlled threads perform external set / delete through the
// hooked store, gateway reads (on-demand import), gateway writes, and feed imports (the real
// importListener.ImportFeedEvent fed with a snapshot of the document, delivered once or twice). The
// serialised order of successful mutations of the document key, taken from the store log, decides.

type c09Scenario struct {
	Ops     []string `json:"ops"`     // per thread: xset1 | xset2 | xdel | get | put | feed | feed2
	Initial string   `json:"initial"` // absent | sgdoc
}

func (s c09Scenario) name() string { return strings.Join(s.Ops, " || ") + "|initial=" + s.Initial }

const c09Doc = "ext"

func c09Build(t testing.TB, r *vreport.Report, sc c09Scenario) vsched.Scenario {
	MaxSequenceIncrFrequency = 0
	v := newVDB(t, DatabaseContextOptions{})
	ctx, coll := v.ctx, v.coll
	H := v.vb.H
	H.Enabled = true
	initialGen := 0
	if sc.Initial == "sgdoc" {
		if _, _, err := coll.Put(ctx, c09Doc, Body{"channels": []string{"A"}, "v": "sg0"}); err != nil {
			t.Fatalf("setup: %v", err)
		}
		initialGen = 1
	}
	il := NewImportListener(ctx, "c09", v.db.DatabaseContext)
	il.collections[coll.GetCollectionID()] = *coll
	xattrKeys := []string{base.SyncXattrName, base.VvXattrName, base.MouXattrName, base.GlobalXattrName}
	startLog := len(H.Snapshot())
	kind := make([]string, len(sc.Ops))
	errs := make([]error, len(sc.Ops))
	threads := make([]func(), len(sc.Ops))
	for i, op := range sc.Ops {
		i, op := i, op
		kind[i] = op
		threads[i] = func() {
			switch op {
			case "xset1", "xset2":
				errs[i] = coll.dataStore.SetRaw(ctx, c09Doc, 0, nil, []byte(fmt.Sprintf(`{"channels":["A"],"v":"%s-t%d"}`, op, i)))
			case "xdel":
				err := coll.dataStore.Delete(ctx, c09Doc)
				if err != nil && !base.IsDocNotFoundError(err) {
					errs[i] = err
				}
			case "get":
				_, err := coll.GetDocument(ctx, c09Doc, DocUnmarshalAll)
				if err != nil && !base.IsDocNotFoundError(err) {
					errs[i] = err
				}
			case "put":
				// a gateway write on top of whatever the gateway currently sees
				doc, err := coll.GetDocument(ctx, c09Doc, DocUnmarshalSync)
				body := Body{"channels": []string{"A"}, "v": fmt.Sprintf("sgput-t%d", i)}
				if err == nil && doc != nil && !doc.IsDeleted() {
					body[BodyRev] = doc.GetRevTreeID()
				}
				_, _, err = coll.Put(ctx, c09Doc, body)
				if status, _ := base.ErrorAsHTTPStatus(err); err != nil && status != 409 {
					errs[i] = err
				}
			case "feed", "feed2":
				// what the mutation feed delivers: a snapshot of the document as of some mutation
				raw, xattrs, cas, err := coll.dataStore.GetWithXattrs(ctx, c09Doc, xattrKeys)
				if err != nil && raw == nil && len(xattrs) == 0 {
					return // nothing to deliver
				}
				var xs []sgbucket.Xattr
				for _, k := range xattrKeys {
					if val, ok := xattrs[k]; ok && len(val) > 0 {
						xs = append(xs, sgbucket.Xattr{Name: k, Value: val})
					}
				}
				ev := sgbucket.FeedEvent{Opcode: sgbucket.FeedOpMutation, Key: []byte(c09Doc), Cas: cas, CollectionID: coll.GetCollectionID(), DataType: base.MemcachedDataTypeJSON}
				if raw == nil {
					ev.Opcode = sgbucket.FeedOpDeletion
				}
				if len(xs) > 0 {
					ev.DataType |= base.MemcachedDataTypeXattr
					ev.Value = sgbucket.EncodeValueWithXattrs(raw, xs...)
				} else {
					ev.Value = raw
				}
				n := 1
				if op == "feed2" {
					n = 2
				}
				for k := 0; k < n; k++ {
					il.ProcessFeedEvent(ev)
				}
			}
		}
	}
	H.Schedule = true
	return vsched.Scenario{
		Threads: threads,
		Cleanup: v.close,
		Check: func(x *vsched.Exec) map[string]string {
			viol := map[string]string{}
			name := sc.name()
			H.Schedule = false
			for i, e := range errs {
				if e != nil {
					viol["C09/op-failed/"+kind[i]] = fmt.Sprintf("thread %d %s: %v [%s]", i, kind[i], e, name)
				}
			}
			// quiesce: one more gateway read imports whatever external write is still pending
			mark := len(H.Snapshot())
			doc, err := coll.GetDocument(ctx, c09Doc, DocUnmarshalAll)
			if err != nil && !base.IsDocNotFoundError(err) {
				viol["C09/final-read-failed"] = err.Error()
				return viol
			}
			// a second read must not write anything (no import loop)
			mark2 := len(H.Snapshot())
			_, _ = coll.GetDocument(ctx, c09Doc, DocUnmarshalAll)
			for _, rec := range H.Snapshot()[mark2:] {
				if rec.Key == c09Doc && rec.Write && rec.Applied {
					viol["C09/import-loop/read-after-quiescence-writes"] = fmt.Sprintf("a second gateway read wrote the document again (%s) [%s]", rec.Op, name)
				}
			}
			_ = mark
			// serialised successful mutations of the key
			type mut struct {
				class  string // E external, G gateway
				thread int
				op     string
			}
			var muts []mut
			for _, rec := range H.Snapshot()[startLog:] {
				if rec.Key != c09Doc || !rec.Write || !rec.Applied {
					continue
				}
				switch rec.Op {
				case "SetRaw", "Delete":
					muts = append(muts, mut{"E", rec.Thread, rec.Op})
				case "WriteUpdateWithXattrs.write":
					muts = append(muts, mut{"G", rec.Thread, rec.Op})
				}
			}
			var order []string
			gWrites := 0
			lastE := -1
			for i, m := range muts {
				order = append(order, fmt.Sprintf("%s(t%d)", m.class, m.thread))
				if m.class == "E" {
					lastE = i
					continue
				}
				gWrites++
				isPutThread := m.thread >= 0 && m.thread < len(kind) && kind[m.thread] == "put"
				prevIsE := i > 0 && muts[i-1].class == "E"
				if !prevIsE {
					// a gateway write not directly after an external write is legitimate only as the put of a put thread
					if !isPutThread {
						who := "final read"
						if m.thread >= 0 && m.thread < len(kind) {
							who = kind[m.thread]
						}
						viol["C09/import-without-external-write/"+who] = fmt.Sprintf("mutation %d of the key is a gateway write by %s although no external write precedes it: order %v [%s]", i, who, order, name)
					}
				}
			}
			r.Distinct("mutation_orders", name+"|"+strings.Join(order, ""))
			// An external delete directly followed by an external set resurrects the key without any metadata: the
			// bucket itself discards the gateway's history (and the sequences it carried). The counting clauses do not apply.
			historyDestroyed := false
			for i := 1; i < len(muts); i++ {
				if muts[i-1].class == "E" && muts[i-1].op == "Delete" && muts[i].class == "E" && muts[i].op == "SetRaw" {
					historyDestroyed = true
				}
			}
			if historyDestroyed {
				r.Add("executions_with_history_destroyed_by_external_delete_then_set", 1)
			}
			if doc == nil {
				if lastE >= 0 && muts[lastE].op != "Delete" && len(muts) > 0 {
					viol["C09/external-write-not-visible"] = fmt.Sprintf("the document is not visible through the gateway although the last external write was a set: order %v [%s]", order, name)
				}
				return c09Done(viol)
			}
			gen, _ := ParseRevID(ctx, doc.GetRevTreeID())
			if gen != initialGen+gWrites && !historyDestroyed {
				viol["C09/revision-count"] = fmt.Sprintf("the document is at generation %d (history %v), expected %d initial + %d gateway/import writes: order %v [%s]", gen, c05Revs(doc), initialGen, gWrites, order, name)
			}
			if leaves := doc.History.GetLeaves(); len(leaves) != 1 {
				viol["C09/history-branched"] = fmt.Sprintf("history has leaves %v: %v [%s]", leaves, c05Revs(doc), name)
			}
			for id, ri := range doc.History {
				if ri.Parent != "" {
					pg, _ := ParseRevID(ctx, ri.Parent)
					g, _ := ParseRevID(ctx, id)
					if g != pg+1 {
						viol["C09/import-parent-not-previous-revision"] = fmt.Sprintf("revision %s has parent %s [%s]", id, ri.Parent, name)
					}
				}
			}
			// body: latest external write if it was not followed by a gateway put
			raw, _, _ := coll.dataStore.GetRaw(ctx, c09Doc)
			bodyBytes, _ := doc.BodyBytes(ctx)
			if lastE >= 0 && muts[lastE].op == "SetRaw" {
				lastPutAfter := false
				for _, m := range muts[lastE+1:] {
					if m.thread >= 0 && m.thread < len(kind) && kind[m.thread] == "put" {
						lastPutAfter = true
					}
				}
				if !lastPutAfter {
					if doc.IsDeleted() {
						viol["C09/external-write-not-visible"] = fmt.Sprintf("gateway shows a deleted document although the last external write was a set: order %v [%s]", order, name)
					} else if string(bodyBytes) != string(raw) {
						viol["C09/body-not-latest-external-write"] = fmt.Sprintf("gateway body %s, bucket body %s: order %v [%s]", bodyBytes, raw, order, name)
					}
				}
			}
			if lastE >= 0 && muts[lastE].op == "Delete" && lastE == len(muts)-2 && !doc.IsDeleted() {
				viol["C09/external-delete-not-imported"] = fmt.Sprintf("last external operation was a delete followed by one import, but the gateway shows a live document: order %v [%s]", order, name)
			}
			if !historyDestroyed {
				v.accountSequences(viol, "C09/sequences", name, []string{c09Doc}, nil)
			}
			return c09Done(viol)
		},
	}
}

func c09Done(v map[string]string) map[string]string {
	if len(v) == 0 {
		return nil
	}
	return v
}

type c09Replay struct {
	Sc     c09Scenario          `json:"sc"`
	Prefix []vsched.PrefixEntry `json:"prefix"`
	Bound  int                  `json:"bound"`
}

func TestVerifC09(t *testing.T) {
	r := vreport.Begin("C09")
	defer r.Finish(t)
	r.Rule("scenarios = 2-3 threads from {external set (two bodies), external delete, gateway read, gateway write, feed import of a snapshot delivered once or twice} on one document that is initially absent or a gateway document; every schedule with at most B preemptions at storage operations on a fresh database; non-trivial = distinct (scenario, schedule)")
	r.Assume("automatic import is off: the feed path is driven by calling the real importListener.ProcessFeedEvent with an event built from a snapshot of the document (what the mutation feed delivers); user-xattr-only external writes are not in the alphabet")
	oldFreq := MaxSequenceIncrFrequency
	defer func() { MaxSequenceIncrFrequency = oldFreq }()
	mk := func(sc c09Scenario, bound int) vsched.Config {
		return vsched.Config{
			Name:   sc.name(),
			Bound:  bound,
			New:    func() vsched.Scenario { return c09Build(t, r, sc) },
			Filter: c05Filter,
			Whole:  true,
			Replay: func(name string, p []vsched.PrefixEntry) any { return c09Replay{Sc: sc, Prefix: p, Bound: bound} },
		}
	}
	var rc c09Replay
	if r.Replaying(&rc) {
		vsched.ReplayOne(r, mk(rc.Sc, rc.Bound), rc.Prefix)
		return
	}
	type job struct {
		sc    c09Scenario
		bound int
	}
	var jobs []job
	pairs := [][]string{{"xset1", "get"}, {"xset1", "feed"}, {"xset1", "feed2"}, {"xset1", "put"}, {"xset1", "xset2"}, {"xdel", "get"}, {"xdel", "feed"},
		{"get", "feed"}, {"get", "get"}, {"feed", "feed2"}, {"put", "feed"}, {"put", "get"}, {"xset1", "xdel"}}
	for _, p := range pairs {
		for _, init := range []string{"absent", "sgdoc"} {
			jobs = append(jobs, job{c09Scenario{Ops: p, Initial: init}, 2})
		}
	}
	tb := 1
	if r.Thorough() {
		tb = 2
	}
	triples := [][]string{{"xset1", "get", "feed"}, {"xset1", "feed", "feed2"}, {"xset1", "put", "feed"}, {"xset1", "xset2", "get"}, {"xset1", "get", "get"}, {"xdel", "get", "feed"}, {"xset1", "put", "get"}}
	for _, p := range triples {
		for _, init := range []string{"absent", "sgdoc"} {
			jobs = append(jobs, job{c09Scenario{Ops: p, Initial: init}, tb})
		}
	}
	sort.SliceStable(jobs, func(i, j int) bool { return len(jobs[i].sc.Ops) > len(jobs[j].sc.Ops) })
	r.Note("scenarios", len(jobs))
	for i, j := range jobs {
		if !r.Mine(i) {
			continue
		}
		if r.Expired() {
			r.Cap("time budget reached before all scenarios were explored")
			break
		}
		vsched.Explore(r, mk(j.sc, j.bound))
		r.Add("scenarios", 1)
	}
	r.Add("distinct_nontrivial", r.Get("schedules"))
}
