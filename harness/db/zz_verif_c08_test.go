//go:build verif

package db

import (
	"context"
	"fmt"
	"sort"
	"strings"
	"sync"
	"testing"
	"time"

	"github.com/couchbase/sync_gateway/base"
	"github.com/couchbase/sync_gateway/channels"
	"github.com/couchbase/sync_gateway/verifshim/vreport"
	"github.com/couchbase/sync_gateway/verifshim/vstate"
)

// C08 — sequence buffering delivers each change once, in order, and never hides gaps.
// E2 over the real changeCache (Init/Start/processEntry/releaseUnusedSequence(Range)/InsertPendingEntries)
// with a recording ChannelCache behind it. A world fixes the fate of every sequence in 1..W.

type c08Event struct {
	Op string `json:"op"` // deliver | tick
	I  int    `json:"i,omitempty"`
}

type c08Feed struct { // one feed event of a world
	Kind     string // doc | principal | unused | range
	Seq, End uint64
	Doc, Ch  string
}

type c08Config struct {
	World  string `json:"world"` // fate string, one letter per sequence: D doc, P principal, U unused single, R unused range member
	MaxNum int    `json:"max_num"`
	MaxDup int    `json:"max_dup"`
}

func c08Feeds(world string) []c08Feed {
	var f []c08Feed
	for i := 0; i < len(world); i++ {
		seq := uint64(i + 1)
		switch world[i] {
		case 'D':
			f = append(f, c08Feed{Kind: "doc", Seq: seq, Doc: fmt.Sprintf("doc%d", seq), Ch: []string{"A", "B"}[i%2]})
		case 'P':
			f = append(f, c08Feed{Kind: "principal", Seq: seq})
		case 'U':
			f = append(f, c08Feed{Kind: "unused", Seq: seq})
		case 'R':
			j := i
			for j+1 < len(world) && world[j+1] == 'R' {
				j++
			}
			f = append(f, c08Feed{Kind: "range", Seq: seq, End: uint64(j + 1)})
			i = j
		}
	}
	return f
}

func c08ValidWorld(w string) bool {
	for i := 0; i < len(w); i++ {
		if w[i] == 'R' {
			j := i
			for j+1 < len(w) && w[j+1] == 'R' {
				j++
			}
			if j == i {
				return false // a range needs at least two members
			}
			i = j
		}
	}
	return true
}

type c08Recorder struct {
	ChannelCache // nil: any method not overridden panics loudly
	mu           sync.Mutex
	forwarded    []uint64            // sequences passed to AddToCache, in call order
	fwdCount     map[uint64]int      // per sequence
	fwdChan      map[uint64][]string // channels returned
	principals   map[uint64]int
	unused       map[uint64]int
	high         uint64
}

func (r *c08Recorder) Init(initialSequence uint64) { r.high = initialSequence }
func (r *c08Recorder) AddToCache(ctx context.Context, change *LogEntry) []channels.ID {
	r.mu.Lock()
	defer r.mu.Unlock()
	r.forwarded = append(r.forwarded, change.Sequence)
	r.fwdCount[change.Sequence]++
	var ids []channels.ID
	for name := range change.Channels {
		ids = append(ids, channels.NewID(name, change.CollectionID))
		r.fwdChan[change.Sequence] = append(r.fwdChan[change.Sequence], name)
	}
	if change.Sequence > r.high {
		r.high = change.Sequence
	}
	return ids
}
func (r *c08Recorder) AddPrincipal(change *LogEntry) {
	r.mu.Lock()
	r.principals[change.Sequence]++
	r.mu.Unlock()
}
func (r *c08Recorder) AddUnusedSequence(change *LogEntry) {
	r.mu.Lock()
	r.unused[change.Sequence]++
	r.mu.Unlock()
}
func (r *c08Recorder) Clear()                           {}
func (r *c08Recorder) Stop(context.Context)             {}
func (r *c08Recorder) GetHighCacheSequence() uint64     { return r.high }
func (r *c08Recorder) MaxCacheSize(context.Context) int { return 0 }

var (
	c08DbOnce sync.Once
	c08Db     *DatabaseContext
	c08Ctx    context.Context
)

func c08SharedDB(t testing.TB) (*DatabaseContext, context.Context) {
	c08DbOnce.Do(func() {
		ctx := base.TestCtx(t)
		bucket := base.GetTestBucket(t)
		dbc, err := NewDatabaseContext(ctx, "db", bucket, false, DatabaseContextOptions{Scopes: GetScopesOptions(t, bucket, 1)})
		if err != nil {
			t.Fatalf("NewDatabaseContext: %v", err)
		}
		c08Ctx = dbc.AddDatabaseLogContext(ctx)
		c08Db = dbc
	})
	return c08Db, c08Ctx
}

type c08Inst struct {
	cfg       c08Config
	feeds     []c08Feed
	c         *changeCache
	rec       *c08Recorder
	ctx       context.Context
	delivered []int           // model: deliveries per feed event
	arrived   map[uint64]bool // model: sequences that arrived or were declared unused
	maxFwd    uint64
}

func c08New(t testing.TB, cfg c08Config) *c08Inst {
	dbc, ctx := c08SharedDB(t)
	rec := &c08Recorder{fwdCount: map[uint64]int{}, fwdChan: map[uint64][]string{}, principals: map[uint64]int{}, unused: map[uint64]int{}}
	cc := &changeCache{}
	if err := cc.Init(ctx, dbc, rec, nil, &CacheOptions{
		CachePendingSeqMaxWait: time.Hour,
		CachePendingSeqMaxNum:  cfg.MaxNum,
		CacheSkippedSeqMaxWait: time.Hour,
	}, dbc.MetadataKeys); err != nil {
		t.Fatalf("changeCache.Init: %v", err)
	}
	if err := cc.Start(0); err != nil {
		t.Fatalf("changeCache.Start: %v", err)
	}
	feeds := c08Feeds(cfg.World)
	return &c08Inst{cfg: cfg, feeds: feeds, c: cc, rec: rec, ctx: ctx, delivered: make([]int, len(feeds)), arrived: map[uint64]bool{}}
}

func (in *c08Inst) Close() { in.c.Stop(in.ctx) }

func (in *c08Inst) Enabled() []c08Event {
	var ev []c08Event
	for i := range in.feeds {
		if in.delivered[i] < in.cfg.MaxDup {
			ev = append(ev, c08Event{Op: "deliver", I: i})
		}
	}
	ev = append(ev, c08Event{Op: "tick"})
	return ev
}

func (in *c08Inst) skippedSet() []uint64 {
	var s []uint64
	for x := uint64(1); x <= uint64(len(in.cfg.World))+1; x++ {
		if in.c.WasSkipped(x) {
			s = append(s, x)
		}
	}
	return s
}

func (in *c08Inst) Apply(e c08Event) map[string]string {
	viol := map[string]string{}
	skippedBefore := map[uint64]bool{}
	for _, x := range in.skippedSet() {
		skippedBefore[x] = true
	}
	nFwdBefore := len(in.rec.forwarded)
	kind := e.Op
	switch e.Op {
	case "deliver":
		f := in.feeds[e.I]
		kind = "deliver-" + f.Kind
		ts := channels.NewFeedTimestampFromNow()
		switch f.Kind {
		case "doc":
			in.c.processEntry(in.ctx, &LogEntry{Sequence: f.Seq, DocID: f.Doc, RevID: "1-a", TimeReceived: ts,
				Channels: channels.ChannelMap{f.Ch: nil}, CollectionID: 0})
			in.arrived[f.Seq] = true
		case "principal":
			in.c.processEntry(in.ctx, &LogEntry{Sequence: f.Seq, TimeReceived: ts, IsPrincipal: true, DocID: "_user/u"})
			in.arrived[f.Seq] = true
		case "unused":
			in.c.releaseUnusedSequence(in.ctx, f.Seq, ts)
			in.arrived[f.Seq] = true
		case "range":
			in.c.releaseUnusedSequenceRange(in.ctx, f.Seq, f.End, ts)
			for x := f.Seq; x <= f.End; x++ {
				in.arrived[x] = true
			}
		}
		in.delivered[e.I]++
	case "tick":
		// the pending-wait timer fires: every pending entry is now overdue
		in.c.lock.Lock()
		in.c.options.CachePendingSeqMaxWait = 0
		in.c.lock.Unlock()
		_ = in.c.InsertPendingEntries(in.ctx)
		in.c.lock.Lock()
		in.c.options.CachePendingSeqMaxWait = time.Hour
		in.c.lock.Unlock()
	}

	// ---- invariants
	in.c.lock.RLock()
	next := in.c.nextSequence
	stable := in.c._getMaxStableCached(in.ctx)
	pend := map[uint64]bool{}
	for _, p := range in.c.pendingLogs {
		pend[p.Sequence] = true
	}
	in.c.lock.RUnlock()
	skipped := in.skippedSet()
	skSet := map[uint64]bool{}
	for _, x := range skipped {
		skSet[x] = true
	}
	W := uint64(len(in.cfg.World))
	fp := func(s string) string { return "C08/" + s + "/" + kind }
	if next > W+1 {
		viol[fp("high-water-mark-beyond-feed")] = fmt.Sprintf("nextSequence=%d but the feed only has sequences 1..%d", next, W)
	}
	for x := uint64(1); x <= W; x++ {
		below := x < next
		switch {
		case below && !in.arrived[x] && !skSet[x]:
			viol[fp("gap-hidden")] = fmt.Sprintf("sequence %d is below the high-water mark (next=%d) but has neither arrived nor is it tracked as skipped (skipped=%v arrived=%v)", x, next, skipped, in.arrivedList())
		case skSet[x] && in.arrived[x]:
			viol[fp("arrived-still-skipped")] = fmt.Sprintf("sequence %d has arrived but is still in the skipped set %v (next=%d)", x, skipped, next)
		case skSet[x] && !below:
			viol[fp("skipped-above-high-water-mark")] = fmt.Sprintf("sequence %d is in the skipped set but not below next=%d", x, next)
		}
	}
	// exactly-once forwarding of document changes
	for _, f := range in.feeds {
		n := in.rec.fwdCount[f.Seq]
		if f.Kind != "doc" {
			if n != 0 {
				viol[fp("non-document-forwarded")] = fmt.Sprintf("%s sequence %d was forwarded to channels", f.Kind, f.Seq)
			}
			continue
		}
		if n > 1 {
			viol[fp("change-forwarded-twice")] = fmt.Sprintf("document change %d forwarded %d times (order %v)", f.Seq, n, in.rec.forwarded)
		}
		want := 0
		if in.arrived[f.Seq] && f.Seq < next {
			want = 1
		}
		if n == 0 && want == 1 {
			viol[fp("change-not-forwarded")] = fmt.Sprintf("document change %d has arrived and is below next=%d but was never forwarded (forwarded %v, pending %v, skipped %v)", f.Seq, next, in.rec.forwarded, pend, skipped)
		}
		if n == 1 && want == 0 {
			viol[fp("change-forwarded-early")] = fmt.Sprintf("document change %d forwarded although arrived=%v next=%d", f.Seq, in.arrived[f.Seq], next)
		}
		if n >= 1 && (len(in.rec.fwdChan[f.Seq]) != n || in.rec.fwdChan[f.Seq][0] != f.Ch) {
			viol[fp("change-forwarded-to-wrong-channels")] = fmt.Sprintf("document change %d forwarded to %v, want [%s]", f.Seq, in.rec.fwdChan[f.Seq], f.Ch)
		}
	}
	// order: every newly forwarded entry is either above everything forwarded before (in order) or a late arrival of a skipped sequence
	for _, s := range in.rec.forwarded[nFwdBefore:] {
		if s > in.maxFwd {
			in.maxFwd = s
		} else if !skippedBefore[s] {
			viol[fp("forwarded-out-of-order")] = fmt.Sprintf("sequence %d forwarded after %d without having been skipped (order %v)", s, in.maxFwd, in.rec.forwarded)
		}
	}
	// contiguous mark exposed to changes responses
	var contiguous uint64
	for contiguous < W && in.arrived[contiguous+1] {
		contiguous++
	}
	modelStable := contiguous
	if next-1 < modelStable { // arrived but still pending above the mark: not yet stable
		modelStable = next - 1
	}
	if stable != modelStable {
		viol[fp("stable-sequence-wrong")] = fmt.Sprintf("stable (low) sequence reported %d, last contiguous sequence is %d (next=%d skipped=%v arrived=%v)", stable, modelStable, next, skipped, in.arrivedList())
	}
	if got := in.c.getOldestSkippedSequence(in.ctx); (len(skipped) == 0 && got != 0) || (len(skipped) > 0 && got != skipped[0]) {
		viol[fp("oldest-skipped-wrong")] = fmt.Sprintf("getOldestSkippedSequence=%d skipped=%v", got, skipped)
	}
	// pending entries are exactly the arrived, not yet cached ones
	for x := next; x <= W; x++ {
		if in.arrived[x] && !pend[x] && !in.inPendingRange(x) {
			viol[fp("arrived-not-pending")] = fmt.Sprintf("sequence %d arrived above next=%d but is not pending", x, next)
		}
	}
	if len(viol) == 0 {
		return nil
	}
	return viol
}

func (in *c08Inst) inPendingRange(x uint64) bool {
	in.c.lock.RLock()
	defer in.c.lock.RUnlock()
	for _, p := range in.c.pendingLogs {
		if p.EndSequence != 0 && p.Sequence <= x && x <= p.EndSequence {
			return true
		}
	}
	return false
}

func (in *c08Inst) arrivedList() []uint64 {
	var l []uint64
	for x := range in.arrived {
		l = append(l, x)
	}
	sort.Slice(l, func(i, j int) bool { return l[i] < l[j] })
	return l
}

func (in *c08Inst) Canon() string {
	in.c.lock.RLock()
	var pend []string
	for _, p := range in.c.pendingLogs {
		pend = append(pend, fmt.Sprintf("%d-%d", p.Sequence, p.EndSequence))
	}
	var recv []uint64
	for s := range in.c.receivedSeqs {
		recv = append(recv, s)
	}
	next := in.c.nextSequence
	in.c.lock.RUnlock()
	sort.Strings(pend)
	sort.Slice(recv, func(i, j int) bool { return recv[i] < recv[j] })
	fw := append([]uint64{}, in.rec.forwarded...)
	sort.Slice(fw, func(i, j int) bool { return fw[i] < fw[j] })
	var b strings.Builder
	fmt.Fprintf(&b, "n%d|p%v|r%v|s%v|f%v|m%d|d%v|P%v|U%v", next, pend, recv, in.skippedSet(), fw, in.maxFwd, in.delivered, len(in.rec.principals), len(in.rec.unused))
	return b.String()
}

type c08Replay struct {
	Cfg  c08Config  `json:"cfg"`
	Hist []c08Event `json:"hist"`
}

func TestVerifC08(t *testing.T) {
	r := vreport.Begin("C08")
	defer r.Finish(t)
	r.Rule("explicit-state BFS over feed-delivery orders (every event deliverable up to max_dup times) and pending-timer ticks on the real changeCache for every world (fate of each sequence 1..W: document/principal/unused/unused-range) and pending-queue threshold; canonical state = (nextSequence, pending heap, receivedSeqs, skipped set, forwarded set, deliveries per event); non-trivial = distinct canonical state")
	r.Assume("each sequence has one fate; the pending-wait timer is an explicit event that makes every pending entry overdue and calls the real InsertPendingEntries; skipped-sequence abandonment (60 min) is not fired")

	mk := func(cfg c08Config) vstate.Config[c08Event] {
		return vstate.Config[c08Event]{
			Name:     fmt.Sprintf("%s/max%d/dup%d", cfg.World, cfg.MaxNum, cfg.MaxDup),
			New:      func() vstate.Instance[c08Event] { return c08New(t, cfg) },
			MaxDepth: 40,
			Replay:   func(name string, hist []c08Event) any { return c08Replay{Cfg: cfg, Hist: hist} },
		}
	}
	defer func() {
		if c08Db != nil {
			c08Db.Close(c08Ctx)
		}
	}()
	var rc c08Replay
	if r.Replaying(&rc) {
		vstate.ReplayHistory(r, mk(rc.Cfg), rc.Hist)
		return
	}
	W := 4
	worlds := []string{}
	if r.Thorough() {
		W = 5
	}
	// all valid worlds of length W
	var gen func(p string)
	gen = func(p string) {
		if len(p) == W {
			if c08ValidWorld(p) {
				worlds = append(worlds, p)
			}
			return
		}
		for _, c := range "DPUR" {
			gen(p + string(c))
		}
	}
	gen("")
	if !r.Thorough() {
		// quick: all worlds of length 4 with dup 1, plus a hand-picked set of length 5 with dup 2 on small thresholds
		r.Note("worlds_len4", len(worlds))
	}
	type job struct{ cfg c08Config }
	var jobs []job
	for _, w := range worlds {
		for _, mn := range []int{1, 2, 10000} {
			dup := 2
			jobs = append(jobs, job{c08Config{World: w, MaxNum: mn, MaxDup: dup}})
		}
	}
	if !r.Thorough() {
		for _, w := range []string{"DDDDD", "DPDUD", "DRRDD", "RRRDD", "DDRRR", "UDPRR", "DRRRD"} {
			for _, mn := range []int{1, 2, 10000} {
				jobs = append(jobs, job{c08Config{World: w, MaxNum: mn, MaxDup: 1}})
			}
		}
	}
	r.Note("W", W)
	r.Note("jobs", len(jobs))
	for i, j := range jobs {
		if !r.Mine(i) {
			continue
		}
		if r.Expired() {
			r.Cap("time budget reached before all worlds were explored")
			break
		}
		res := vstate.Explore(r, mk(j.cfg))
		r.Add("configs", 1)
		if !res.Complete {
			r.Cap("depth bound before fixpoint in " + j.cfg.World)
		}
	}
	r.Add("distinct_nontrivial", r.Get("states"))
}
