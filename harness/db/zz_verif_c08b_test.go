//go:build verif

package db

import (
	"context"
	"errors"
	"fmt"
	"sort"
	"strings"
	"sync"
	"testing"
	"time"

	"github.com/couchbase/sync_gateway/auth"
	"github.com/couchbase/sync_gateway/base"
	"github.com/couchbase/sync_gateway/channels"
	"github.com/couchbase/sync_gateway/verifshim/vreport"
)

// C08 (part b) — "until then changes responses expose the last contiguous sequence so that a client resuming from
// it cannot miss the late arrival", at database level: the real mutation feed, change cache, channel caches and
// changes feed. Documents are written with chosen sequence numbers in a chosen arrival order (some sequences
// delayed beyond the pending-sequence wait so that they are skipped, then arriving late). A client polls with
// one-shot requests (or parks one long-poll request), always resuming from the last sequence it was handed. After the
// last arrival and two more polls the client must have been sent every document of its channel.
// Where a poll and the processing of an arrival can overlap, the overlap is enumerated at the granularity of the
// channel-cache calls of both sides: the poll runs while the late arrival is parked before / after its AddToCache,
// and the burst that opens a gap arrives while the poll is parked before / after its read of the cache's high sequence.

type c08bCase struct {
	N       int    `json:"n"`       // sequences 1..N exist, all in the client's channel
	Delayed []int  `json:"delayed"` // sequences that arrive late, in this order
	Polls   int    `json:"polls"`   // bit i set: poll after step i (step 0 = first wave, then one step per late arrival)
	Hook    string `json:"hook"`    // "" | late-before-add | late-after-add | burst-before-high | burst-after-high | longpoll
}

func (c c08bCase) String() string {
	return fmt.Sprintf("n=%d delayed=%v polls=%b hook=%q", c.N, c.Delayed, c.Polls, c.Hook)
}

// c08bCache delegates to the real channel cache and calls the harness at the two seams
type c08bCache struct {
	ChannelCache
	mu        sync.Mutex
	onAdd     func(seq uint64, before bool)
	onHighSeq func(before bool)
}

func (c *c08bCache) AddToCache(ctx context.Context, change *LogEntry) []channels.ID {
	c.mu.Lock()
	f := c.onAdd
	c.mu.Unlock()
	if f != nil {
		f(change.Sequence, true)
	}
	out := c.ChannelCache.AddToCache(ctx, change)
	if f != nil {
		f(change.Sequence, false)
	}
	return out
}

func (c *c08bCache) GetHighCacheSequence() uint64 {
	c.mu.Lock()
	f := c.onHighSeq
	c.mu.Unlock()
	if f != nil {
		f(true)
	}
	v := c.ChannelCache.GetHighCacheSequence()
	if f != nil {
		f(false)
	}
	return v
}

type c08bWorld struct {
	t     *testing.T
	db    *Database
	ctx   context.Context
	coll  *DatabaseCollection
	ucoll *DatabaseCollectionWithUser
	cache *c08bCache
	since SequenceID
	got   map[uint64]int
	log   []string
}

var errC08bStalled = errors.New("the cache did not reach the expected state within the horizon")

// waitHigh waits until the channel cache's high sequence reaches seq (does not touch the change cache's own lock)
func (w *c08bWorld) waitHigh(seq uint64) error {
	deadline := time.Now().Add(20 * time.Second)
	for time.Now().Before(deadline) {
		if w.cache.ChannelCache.GetHighCacheSequence() >= seq {
			return nil
		}
		time.Sleep(time.Millisecond)
	}
	return errC08bStalled
}

func (w *c08bWorld) waitSkippedGone(seq uint64) error {
	deadline := time.Now().Add(20 * time.Second)
	for time.Now().Before(deadline) {
		if !w.db.changeCache.skippedSeqs.Contains(seq) {
			return nil
		}
		time.Sleep(time.Millisecond)
	}
	return errC08bStalled
}

func (w *c08bWorld) poll(label string, wait bool, cctx context.Context) (int, error) {
	opts := ChangesOptions{Since: w.since, ChangesCtx: cctx, Wait: wait}
	feed, err := w.ucoll.MultiChangesFeed(w.ctx, base.SetOf("*"), opts)
	if err != nil {
		return 0, err
	}
	n := 0
	last := w.since
	var seqs []string
	var prev uint64
	for en := range feed {
		if en == nil {
			continue
		}
		if en.Err != nil {
			return n, en.Err
		}
		if strings.HasPrefix(en.ID, "_user/") {
			last = en.Seq
			continue
		}
		if en.Seq.Seq < prev && en.Seq.TriggeredBy == 0 {
			seqs = append(seqs, "OUT-OF-ORDER")
		}
		prev = en.Seq.Seq
		w.got[en.Seq.Seq]++
		last = en.Seq
		seqs = append(seqs, en.Seq.String())
		n++
	}
	// the client resumes from the token it was handed (through its string form, as a real client does)
	tok, perr := ParsePlainSequenceID(last.String())
	if perr != nil {
		return n, fmt.Errorf("server handed out an unparsable position %q: %v", last.String(), perr)
	}
	w.log = append(w.log, fmt.Sprintf("%s since=%s -> [%s] last_seq=%s", label, w.since.String(), strings.Join(seqs, " "), last.String()))
	w.since = tok
	return n, nil
}

func c08bRun(t *testing.T, r *vreport.Report, c c08bCase) {
	cacheOpts := DefaultCacheOptions()
	cacheOpts.CachePendingSeqMaxWait = 5 * time.Millisecond
	cacheOpts.CachePendingSeqMaxNum = 50
	cacheOpts.CacheSkippedSeqMaxWait = 10 * time.Minute
	database, ctx := setupTestDBWithCacheOptions(t, cacheOpts)
	defer database.Close(ctx)
	a := database.Authenticator(ctx)
	user, err := a.NewUser("naomi", "letmein", channels.BaseSetOf(t, "ABC"))
	if err == nil {
		err = a.Save(user)
	}
	if err != nil {
		t.Fatalf("user: %v", err)
	}
	coll := GetSingleDatabaseCollection(t, database.DatabaseContext)
	ucoll, ctx := GetSingleDatabaseCollectionWithUser(ctx, t, database)
	ucoll.user, _ = a.GetUser("naomi")
	wrapper := &c08bCache{ChannelCache: database.changeCache.channelCache}
	database.changeCache.channelCache = wrapper
	w := &c08bWorld{t: t, db: database, ctx: ctx, coll: coll, ucoll: ucoll, cache: wrapper, got: map[uint64]int{}}
	delayed := map[int]bool{}
	for _, d := range c.Delayed {
		delayed[d] = true
	}
	stalled := func(what string) {
		r.Add("scenarios_abandoned_cache_did_not_settle", 1)
		r.Cap("a scenario was abandoned because the cache did not settle within 20 s (" + what + ")")
	}
	tctx, cancel := context.WithCancel(base.TestCtx(t))
	defer cancel()
	firstWave := func() error {
		last := 0
		for s := 1; s <= c.N; s++ {
			if !delayed[s] {
				WriteDirect(t, coll, []string{"ABC"}, uint64(s))
				last = s
			}
		}
		return w.waitHigh(uint64(last))
	}
	violated := false
	fail := func(fp, detail string) {
		violated = true
		r.Violate(fp, detail+"; "+c.String()+"; client log: "+strings.Join(w.log, " | "), c)
	}
	pollNow := func(label string) {
		if _, err := w.poll(label, false, tctx); err != nil {
			fail("C08/client/poll-failed", fmt.Sprintf("%s: %v", label, err))
		}
	}
	// ---- step 0: first wave (optionally with the poll overlapping the burst that opens the gap)
	switch c.Hook {
	case "burst-before-high", "burst-after-high", "burst-before-high@2", "burst-after-high@2", "burst-before-high@3", "burst-after-high@3":
		// the client has caught up with sequence 1 and polls again; during that poll's k-th read of the cache's high
		// sequence the rest of the first wave arrives and the gap is skipped (if the poll makes fewer reads, the burst
		// arrives after the poll)
		k := 1
		if i := strings.Index(c.Hook, "@"); i > 0 {
			k = int(c.Hook[i+1] - '0')
		}
		wantBefore := strings.HasPrefix(c.Hook, "burst-before-high")
		WriteDirect(t, coll, []string{"ABC"}, 1)
		if err := w.waitHigh(1); err != nil {
			stalled("first document")
			return
		}
		pollNow("poll-0")
		fired := false
		calls := 0
		burst := func() {
			last := 0
			for s := 2; s <= c.N; s++ {
				if !delayed[s] {
					WriteDirect(t, coll, []string{"ABC"}, uint64(s))
					last = s
				}
			}
			_ = w.waitHigh(uint64(last))
		}
		wrapper.mu.Lock()
		wrapper.onHighSeq = func(before bool) {
			if before {
				calls++
			}
			if fired || calls != k || before != wantBefore {
				return
			}
			fired = true
			burst()
		}
		wrapper.mu.Unlock()
		pollNow("poll-overlapping-the-burst")
		wrapper.mu.Lock()
		wrapper.onHighSeq = nil
		wrapper.mu.Unlock()
		if !fired {
			r.Add("burst_hook_not_reached", 1)
			burst()
		}
		lastWave := 0
		for s := 2; s <= c.N; s++ {
			if !delayed[s] {
				lastWave = s
			}
		}
		if err := w.waitHigh(uint64(lastWave)); err != nil {
			stalled("first wave")
			return
		}
	default:
		if err := firstWave(); err != nil {
			stalled("first wave")
			return
		}
	}
	if c.Polls&1 != 0 {
		pollNow("poll-after-first-wave")
	}
	// ---- late arrivals
	for i, d := range c.Delayed {
		seq := uint64(d)
		switch {
		case c.Hook == "longpoll" && i == 0:
			// the client parks a long-poll request from its position; the late arrival must wake it
			type res struct {
				n   int
				err error
			}
			done := make(chan res, 1)
			go func() {
				n, err := w.poll("longpoll", true, tctx)
				done <- res{n, err}
			}()
			time.Sleep(150 * time.Millisecond) // let it park (if it returns at once because something was pending, that is fine too)
			WriteDirect(t, coll, []string{"ABC"}, seq)
			if err := w.waitSkippedGone(seq); err != nil {
				stalled("late arrival")
				return
			}
			select {
			case x := <-done:
				if x.err != nil {
					fail("C08/client/poll-failed", "longpoll: "+x.err.Error())
				}
			case <-time.After(10 * time.Second):
				// still parked although the late arrival has been cached: wake it with a later document and see what the
				// client ends up with
				w.log = append(w.log, "longpoll still parked 10 s after the late arrival was cached; writing one more document")
				c.N++
				WriteDirect(t, coll, []string{"ABC"}, uint64(c.N))
				select {
				case <-done:
				case <-time.After(20 * time.Second):
					cancel()
					<-done
					fail("C08/client/longpoll-never-returned", "a parked long-poll request returned neither on the late arrival nor on a later document")
					return
				}
			}
		case (c.Hook == "late-before-add" || c.Hook == "late-after-add") && i == 0:
			parked := make(chan struct{})
			release := make(chan struct{})
			fired := false
			wrapper.mu.Lock()
			wrapper.onAdd = func(s uint64, before bool) {
				if fired || s != seq || before != (c.Hook == "late-before-add") {
					return
				}
				fired = true
				close(parked)
				<-release
			}
			wrapper.mu.Unlock()
			WriteDirect(t, coll, []string{"ABC"}, seq)
			select {
			case <-parked:
			case <-time.After(20 * time.Second):
				close(release)
				stalled("late arrival did not reach the channel cache")
				return
			}
			// the client polls while the feed is inside the processing of the late arrival
			pdone := make(chan error, 1)
			go func() {
				_, err := w.poll("poll-during-late-arrival("+c.Hook+")", false, tctx)
				pdone <- err
			}()
			select {
			case err := <-pdone:
				if err != nil {
					fail("C08/client/poll-failed", err.Error())
				}
				close(release)
			case <-time.After(3 * time.Second):
				// the poll needs something the feed holds: this overlap cannot happen; let the feed finish first
				r.Add("overlaps_serialised_by_the_code", 1)
				close(release)
				if err := <-pdone; err != nil {
					fail("C08/client/poll-failed", err.Error())
				}
			}
			wrapper.mu.Lock()
			wrapper.onAdd = nil
			wrapper.mu.Unlock()
			if err := w.waitSkippedGone(seq); err != nil {
				stalled("late arrival")
				return
			}
		default:
			WriteDirect(t, coll, []string{"ABC"}, seq)
			if err := w.waitSkippedGone(seq); err != nil {
				stalled("late arrival")
				return
			}
		}
		if c.Polls&(1<<(i+1)) != 0 {
			pollNow(fmt.Sprintf("poll-after-late-%d", d))
		}
	}
	// ---- one more ordinary document, then the client polls until it is handed nothing twice
	c.N++
	WriteDirect(t, coll, []string{"ABC"}, uint64(c.N))
	if err := w.waitHigh(uint64(c.N)); err != nil {
		stalled("final document")
		return
	}
	empty := 0
	for k := 0; k < 6 && empty < 2; k++ {
		n, err := w.poll(fmt.Sprintf("final-poll-%d", k), false, tctx)
		if err != nil {
			fail("C08/client/poll-failed", err.Error())
			break
		}
		if n == 0 {
			empty++
		}
	}
	var missing []string
	for s := 1; s <= c.N; s++ {
		if w.got[uint64(s)] == 0 {
			missing = append(missing, fmt.Sprint(s))
		}
	}
	sort.Strings(missing)
	for _, l := range w.log {
		if strings.Contains(l, "OUT-OF-ORDER") {
			fail("C08/client/response-not-in-sequence-order", l)
		}
	}
	if len(missing) > 0 {
		hook := c.Hook
		if hook == "" {
			hook = "sequential"
		}
		fail("C08/client/missed-sequences/"+hook, fmt.Sprintf("a client that always resumed from the position it was handed was never sent sequence(s) %s", strings.Join(missing, ",")))
	}
	if !violated {
		r.Distinct("client_outcomes", fmt.Sprintf("%s|%d responses", c.String(), len(w.log)))
	}
}

func TestVerifC08Client(t *testing.T) {
	r := vreport.Begin("C08")
	defer r.Finish(t)
	r.Rule("(b) documents 1..N in the client's channel arrive through the real mutation feed with every non-empty set of up to 2 delayed sequences out of {2,3,4} (skipped after the pending wait, arriving late in every order); a client polls with one-shot requests after every subset of the steps {first wave, each late arrival} and finally until it is handed nothing twice, always resuming from the position it was handed; variants: the first late arrival is processed while a poll runs (poll placed before / after the arrival's AddToCache), the gap-opening burst arrives during a poll's first, second or third read of the cache's high sequence (before / after the read), the client is parked in a long-poll request when the first late arrival comes; non-trivial = distinct case")
	r.Assume("overlaps are enumerated at the granularity of the channel-cache interface calls (AddToCache, GetHighCacheSequence), not at every lock operation; the pending-sequence wait is 5 ms so that gaps are skipped quickly; waits are on observable cache state with a 20 s horizon after which the scenario is abandoned (cap), never judged")
	var rc c08bCase
	if r.Replaying(&rc) {
		c08bRun(t, r, rc)
		return
	}
	N := 6
	var delaySets [][]int
	cand := []int{2, 3, 4}
	for _, a := range cand {
		delaySets = append(delaySets, []int{a})
		for _, b := range cand {
			if a != b {
				delaySets = append(delaySets, []int{a, b})
			}
		}
	}
	idx := 0
	for _, ds := range delaySets {
		steps := 1 + len(ds)
		for _, hook := range []string{"", "late-before-add", "late-after-add", "burst-before-high", "burst-after-high", "burst-before-high@2", "burst-after-high@2", "burst-before-high@3", "longpoll"} {
			for polls := 0; polls < 1<<steps; polls++ {
				if hook == "longpoll" && polls&1 == 0 {
					continue // the parked request resumes from a position handed out after the gap opened
				}
				if hook != "" && r.Tier == "quick" && len(ds) == 2 && polls != (1<<steps)-1 && polls != 1 {
					continue
				}
				idx++
				if !r.Mine(idx) || r.Expired() {
					continue
				}
				c := c08bCase{N: N, Delayed: ds, Polls: polls, Hook: hook}
				c08bRun(t, r, c)
				r.Add("evaluations", 1)
				r.Add("client_scenarios", 1)
				r.Add("distinct_nontrivial", 1)
				if idx%17 == 0 || idx <= 16 {
					r.Sample(map[string]any{"case": c.String()})
				}
			}
		}
	}
	if r.Expired() {
		r.Cap("time budget reached before all scenarios were explored")
	}
}

// ---- (c) a late arrival while a limited back-fill of a newly granted channel is in progress
// Documents 2,3,5,6 are in channel NEW, 4 (also NEW) is delayed and skipped; the client (channel ABC only, caught up at 1)
// is then granted NEW at sequence T=8 and pulls the back-fill with a limit, so that it is handed positions of the form
// low:triggered-by:seq; the delayed document arrives after some of those limited polls. The client must end up with all.

type c08cCase struct {
	Limit      int `json:"limit"`
	LateAfter  int `json:"late_after"` // the delayed document arrives after this many limited polls of the back-fill
	DelayedSeq int `json:"delayed_seq"`
}

func c08cRun(t *testing.T, r *vreport.Report, c c08cCase) {
	cacheOpts := DefaultCacheOptions()
	cacheOpts.CachePendingSeqMaxWait = 5 * time.Millisecond
	cacheOpts.CachePendingSeqMaxNum = 50
	cacheOpts.CacheSkippedSeqMaxWait = 10 * time.Minute
	database, ctx := setupTestDBWithCacheOptions(t, cacheOpts)
	defer database.Close(ctx)
	// the allocator will hand out 8 next
	if _, err := database.MetadataStore.Incr(ctx, database.MetadataKeys.SyncSeqKey(), 7, 7, 0); err != nil {
		t.Fatalf("counter: %v", err)
	}
	a := database.Authenticator(ctx)
	user, err := a.NewUser("naomi", "letmein", channels.BaseSetOf(t, "ABC"))
	if err == nil {
		err = a.Save(user)
	}
	if err != nil {
		t.Fatalf("user: %v", err)
	}
	coll := GetSingleDatabaseCollection(t, database.DatabaseContext)
	ucoll, ctx := GetSingleDatabaseCollectionWithUser(ctx, t, database)
	ucoll.user, _ = a.GetUser("naomi")
	wrapper := &c08bCache{ChannelCache: database.changeCache.channelCache}
	w := &c08bWorld{t: t, db: database, ctx: ctx, coll: coll, ucoll: ucoll, cache: wrapper, got: map[uint64]int{}}
	tctx, cancel := context.WithCancel(base.TestCtx(t))
	defer cancel()
	abandon := func(what string) {
		r.Add("scenarios_abandoned_cache_did_not_settle", 1)
		r.Cap("a back-fill scenario was abandoned: " + what)
	}
	WriteDirect(t, coll, []string{"ABC"}, 1)
	if err := w.waitHigh(1); err != nil {
		abandon("first document")
		return
	}
	if _, err := w.poll("poll-0", false, tctx); err != nil {
		r.Violate("C08/client/poll-failed", err.Error(), c)
		return
	}
	for _, s := range []int{2, 3, 4, 5, 6} {
		if s != c.DelayedSeq {
			WriteDirect(t, coll, []string{"NEW"}, uint64(s))
		}
	}
	WriteDirect(t, coll, []string{"ABC"}, 7)
	if err := w.waitHigh(7); err != nil {
		abandon("first wave")
		return
	}
	// grant NEW
	grant := &auth.PrincipalConfig{Name: base.Ptr("naomi")}
	if base.IsDefaultCollection(coll.ScopeName, coll.Name) {
		grant.ExplicitChannels = base.SetOf("ABC", "NEW")
	} else {
		grant.SetExplicitChannels(coll.ScopeName, coll.Name, "ABC", "NEW")
	}
	if _, _, err := database.UpdatePrincipal(ctx, grant, true, true); err != nil {
		t.Fatalf("grant: %v", err)
	}
	gu, _ := a.GetUser("naomi")
	if gu == nil || gu.Sequence() != 8 {
		abandon(fmt.Sprintf("the grant did not get sequence 8 (got %v)", gu))
		return
	}
	if err := w.waitHigh(8); err != nil {
		abandon("grant")
		return
	}
	ucoll.user = gu
	pollLimited := func(label string) (int, error) {
		opts := ChangesOptions{Since: w.since, ChangesCtx: tctx, Limit: c.Limit}
		feed, err := w.ucoll.MultiChangesFeed(w.ctx, base.SetOf("*"), opts)
		if err != nil {
			return 0, err
		}
		n := 0
		last := w.since
		var seqs []string
		for en := range feed {
			if en == nil {
				continue
			}
			if en.Err != nil {
				return n, en.Err
			}
			last = en.Seq
			if strings.HasPrefix(en.ID, "_user/") {
				seqs = append(seqs, en.Seq.String()+"(user)")
				n++
				continue
			}
			w.got[en.Seq.Seq]++
			seqs = append(seqs, en.Seq.String())
			n++
		}
		tok, perr := ParsePlainSequenceID(last.String())
		if perr != nil {
			return n, fmt.Errorf("server handed out an unparsable position %q: %v", last.String(), perr)
		}
		w.log = append(w.log, fmt.Sprintf("%s since=%s limit=%d -> [%s] last_seq=%s", label, w.since.String(), c.Limit, strings.Join(seqs, " "), last.String()))
		w.since = tok
		return n, nil
	}
	lateDone := false
	late := func() bool {
		WriteDirect(t, coll, []string{"NEW"}, uint64(c.DelayedSeq))
		if err := w.waitSkippedGone(uint64(c.DelayedSeq)); err != nil {
			abandon("late arrival")
			return false
		}
		lateDone = true
		return true
	}
	empty := 0
	for k := 0; k < 12 && empty < 2; k++ {
		if k == c.LateAfter && !lateDone {
			if !late() {
				return
			}
		}
		n, err := pollLimited(fmt.Sprintf("limited-poll-%d", k))
		if err != nil {
			r.Violate("C08/client/poll-failed", err.Error()+"; log: "+strings.Join(w.log, " | "), c)
			return
		}
		if n == 0 && lateDone {
			empty++
		}
		if n == 0 && !lateDone {
			if !late() {
				return
			}
		}
	}
	var missing []string
	for s := 1; s <= 7; s++ {
		if w.got[uint64(s)] == 0 {
			missing = append(missing, fmt.Sprint(s))
		}
	}
	if len(missing) > 0 {
		r.Violate("C08/client/missed-sequences/limited-backfill-of-a-granted-channel", fmt.Sprintf("a client pulling the back-fill of a newly granted channel with limit %d, always resuming from the position it was handed, was never sent sequence(s) %s (sequence %d arrived late after %d polls); client log: %s", c.Limit, strings.Join(missing, ","), c.DelayedSeq, c.LateAfter, strings.Join(w.log, " | ")), c)
	} else {
		r.Distinct("client_outcomes", fmt.Sprintf("backfill %+v|%d responses", c, len(w.log)))
	}
}

func TestVerifC08Backfill(t *testing.T) {
	r := vreport.Begin("C08")
	defer r.Finish(t)
	r.Rule("(c) a client caught up at sequence 1 (channel ABC) is granted channel NEW at sequence 8 while NEW holds documents 2..6 of which one (2..5) is delayed and skipped; it pulls the back-fill with limit 1..3, always resuming from the low:triggered-by:sequence position it was handed; the delayed document arrives after 0..4 of those polls; the client must end up having been sent 1..7; non-trivial = distinct (limit, delayed sequence, arrival point)")
	r.Assume("as part b")
	var rc c08cCase
	if r.Replaying(&rc) {
		c08cRun(t, r, rc)
		return
	}
	idx := 0
	for _, limit := range []int{1, 2, 3} {
		for _, d := range []int{2, 3, 4, 5} {
			for lateAfter := 0; lateAfter <= 4; lateAfter++ {
				idx++
				if !r.Mine(idx) || r.Expired() {
					continue
				}
				c := c08cCase{Limit: limit, LateAfter: lateAfter, DelayedSeq: d}
				c08cRun(t, r, c)
				r.Add("evaluations", 1)
				r.Add("backfill_scenarios", 1)
				r.Add("distinct_nontrivial", 1)
				if idx%7 == 0 || idx < 4 {
					r.Sample(c)
				}
			}
		}
	}
}

// ---- (d) a document arrives while the channel's cache is being created by the first request for that channel
// (between the request's look-up of the channel's query handler and the insertion of the new cache)

type c08dCase struct {
	N     int  `json:"n"`     // documents 1..N exist before the first request
	Extra int  `json:"extra"` // documents arriving during the creation
	Limit int  `json:"limit"`
	Star  bool `json:"star"` // the client has the wildcard channel instead of the named one
}

func c08dRun(t *testing.T, r *vreport.Report, c c08dCase) {
	cacheOpts := DefaultCacheOptions()
	cacheOpts.CachePendingSeqMaxWait = 5 * time.Millisecond
	database, ctx := setupTestDBWithCacheOptions(t, cacheOpts)
	defer database.Close(ctx)
	a := database.Authenticator(ctx)
	chans := channels.BaseSetOf(t, "ABC")
	if c.Star {
		chans = channels.BaseSetOf(t, "*")
	}
	user, err := a.NewUser("naomi", "letmein", chans)
	if err == nil {
		err = a.Save(user)
	}
	if err != nil {
		t.Fatalf("user: %v", err)
	}
	coll := GetSingleDatabaseCollection(t, database.DatabaseContext)
	ucoll, ctx := GetSingleDatabaseCollectionWithUser(ctx, t, database)
	ucoll.user, _ = a.GetUser("naomi")
	impl, ok := database.changeCache.channelCache.(*channelCacheImpl)
	if !ok {
		t.Fatalf("unexpected channel cache type %T", database.changeCache.channelCache)
	}
	wrapper := &c08bCache{ChannelCache: database.changeCache.channelCache}
	w := &c08bWorld{t: t, db: database, ctx: ctx, coll: coll, ucoll: ucoll, cache: wrapper, got: map[uint64]int{}}
	tctx, cancel := context.WithCancel(base.TestCtx(t))
	defer cancel()
	for s := 1; s <= c.N; s++ {
		WriteDirect(t, coll, []string{"ABC"}, uint64(s))
	}
	if err := w.waitHigh(uint64(c.N)); err != nil {
		r.Cap("a cache-creation scenario was abandoned: first wave")
		return
	}
	orig := impl.queryHandlerFactory
	fired := false
	calls := 0
	total := c.N
	impl.queryHandlerFactory = func(collectionID uint32) (ChannelQueryHandler, error) {
		h, herr := orig(collectionID)
		// the look-up does not say which channel's cache is being created (the request creates one per channel it
		// reads, e.g. the public channel first): documents arrive during each of the first three creations
		calls++
		if calls <= 3 {
			fired = true
			for k := 0; k < c.Extra; k++ {
				total++
				WriteDirect(t, coll, []string{"ABC"}, uint64(total))
			}
			// wait for the feed to process them; if the code serialises this against the creation, give up waiting
			deadline := time.Now().Add(3 * time.Second)
			for impl.GetHighCacheSequence() < uint64(total) && time.Now().Before(deadline) {
				time.Sleep(time.Millisecond)
			}
			if impl.GetHighCacheSequence() < uint64(total) {
				r.Add("overlaps_serialised_by_the_code", 1)
			}
		}
		return h, herr
	}
	defer func() { impl.queryHandlerFactory = orig }()
	_ = fired
	poll := func(label string) (int, error) {
		opts := ChangesOptions{Since: w.since, ChangesCtx: tctx, Limit: c.Limit}
		feed, err := w.ucoll.MultiChangesFeed(w.ctx, base.SetOf("*"), opts)
		if err != nil {
			return 0, err
		}
		n := 0
		last := w.since
		var seqs []string
		for en := range feed {
			if en == nil {
				continue
			}
			if en.Err != nil {
				return n, en.Err
			}
			last = en.Seq
			if strings.HasPrefix(en.ID, "_user/") {
				continue
			}
			w.got[en.Seq.Seq]++
			seqs = append(seqs, en.Seq.String())
			n++
		}
		tok, perr := ParsePlainSequenceID(last.String())
		if perr != nil {
			return n, perr
		}
		w.log = append(w.log, fmt.Sprintf("%s since=%s -> [%s] last_seq=%s", label, w.since.String(), strings.Join(seqs, " "), last.String()))
		w.since = tok
		return n, nil
	}
	if _, err := poll("first-request-for-the-channel"); err != nil {
		r.Violate("C08/client/poll-failed", err.Error(), c)
		return
	}
	if err := w.waitHigh(uint64(total)); err != nil {
		r.Cap("a cache-creation scenario was abandoned: extra documents")
		return
	}
	total++
	WriteDirect(t, coll, []string{"ABC"}, uint64(total))
	if err := w.waitHigh(uint64(total)); err != nil {
		r.Cap("a cache-creation scenario was abandoned: final document")
		return
	}
	empty := 0
	for k := 0; k < 10 && empty < 2; k++ {
		n, err := poll(fmt.Sprintf("poll-%d", k))
		if err != nil {
			r.Violate("C08/client/poll-failed", err.Error(), c)
			return
		}
		if n == 0 {
			empty++
		}
	}
	var missing []string
	for s := 1; s <= total; s++ {
		if w.got[uint64(s)] == 0 {
			missing = append(missing, fmt.Sprint(s))
		}
	}
	if len(missing) > 0 {
		r.Violate("C08/client/missed-sequences/arrival-during-channel-cache-creation", fmt.Sprintf("sequence(s) %s, which arrived while the first request for the channel was creating the channel's cache, were never sent to the client; %+v; client log: %s", strings.Join(missing, ","), c, strings.Join(w.log, " | ")), c)
	} else {
		r.Distinct("client_outcomes", fmt.Sprintf("creation %+v|%d responses", c, len(w.log)))
	}
}

func TestVerifC08CacheCreation(t *testing.T) {
	r := vreport.Begin("C08")
	defer r.Finish(t)
	r.Rule("(d) documents 1..N of channel ABC exist; the first request for the channel (limit 0 / 1, named or wildcard channel) creates the channel's cache; 1..2 further documents of the channel arrive between that request's look-up of the channel's query handler and the insertion of the new cache; one more document later; the client polls until it is handed nothing twice and must have been sent every document; non-trivial = distinct case")
	r.Assume("as part b; the arrival is placed at the query-handler look-up of addChannelCache (the seam the channel cache offers)")
	var rc c08dCase
	if r.Replaying(&rc) {
		c08dRun(t, r, rc)
		return
	}
	idx := 0
	for _, n := range []int{1, 2, 3} {
		for _, extra := range []int{1, 2} {
			for _, limit := range []int{0, 1} {
				for _, star := range []bool{false, true} {
					idx++
					if !r.Mine(idx) || r.Expired() {
						continue
					}
					c := c08dCase{N: n, Extra: extra, Limit: limit, Star: star}
					c08dRun(t, r, c)
					r.Add("evaluations", 1)
					r.Add("cache_creation_scenarios", 1)
					r.Add("distinct_nontrivial", 1)
					r.Sample(c)
				}
			}
		}
	}
}
