//go:build verif

package db

import (
	"fmt"
	"strings"
	"testing"
	"time"

	"github.com/couchbase/sync_gateway/base"
	"github.com/couchbase/sync_gateway/channels"
	"github.com/couchbase/sync_gateway/verifshim/vreport"
)

// C16 (part b) — "after an update that changes a revision's channels without creating a new revision, the old channel
// information stops being served once that update has come through the mutation feed", through the REAL feed path:
// two database contexts (nodes) share one bucket; node 1 imports user-xattr changes (metadata-only: same revision,
// new channels); node 2 only reads and its revision cache is invalidated by its own mutation feed (changeCache.DocChanged).
// E3 over sequences of channel values x which reads node 2 performs between the changes (each read form populates a
// different cache key).

type c16bCase struct {
	Values []string `json:"values"` // successive values of the user xattr (channel names)
	Reads  []string `json:"reads"`  // read forms node 2 performs after every change: active | rev | cv
}

func c16bRun(t *testing.T, r *vreport.Report, c c16bCase, n int) {
	defer SuspendSequenceBatching()()
	const syncFn = `function (doc, oldDoc, meta) { if (meta.xattrs.vchan !== undefined) { channel(meta.xattrs.vchan); } }`
	const xattrKey = "vchan"
	bucket := base.GetTestBucket(t)
	defer bucket.Close(base.TestCtx(t))
	db1, ctx1 := setupTestDBWithOptionsAndImport(t, bucket.NoCloseClone(), DatabaseContextOptions{UserXattrKey: xattrKey})
	defer db1.Close(ctx1)
	c1, ctx1 := GetSingleDatabaseCollectionWithUser(ctx1, t, db1)
	c1.ChannelMapper = channels.NewChannelMapper(ctx1, syncFn, db1.Options.JavascriptTimeout)
	db2, ctx2 := SetupTestDBForBucketWithOptions(t, bucket.NoCloseClone(), DatabaseContextOptions{UserXattrKey: xattrKey})
	defer db2.Close(ctx2)
	c2, ctx2 := GetSingleDatabaseCollectionWithUser(ctx2, t, db2)
	c2.ChannelMapper = channels.NewChannelMapper(ctx2, syncFn, db2.Options.JavascriptTimeout)
	docID := fmt.Sprintf("c16b-%d", n)
	abandon := func(what string) {
		r.Add("scenarios_abandoned", 1)
		r.Cap("a scenario was abandoned: " + what)
	}
	revID, doc, err := c1.Put(ctx1, docID, Body{"foo": "bar"})
	if err != nil {
		t.Fatalf("put: %v", err)
	}
	cv := doc.HLV.GetCurrentVersionString()
	desc := fmt.Sprintf("values=%v reads=%v", c.Values, c.Reads)
	for step, val := range c.Values {
		importCount := db1.DbStats.SharedBucketImport().ImportCount.Value()
		_, cas, err := c1.dataStore.GetXattrs(ctx1, docID, []string{base.SyncXattrName})
		if err != nil {
			t.Fatalf("get xattrs: %v", err)
		}
		if _, err = c1.dataStore.UpdateXattrs(ctx1, docID, 0, cas, map[string][]byte{xattrKey: []byte(`"` + val + `"`)}, nil); err != nil {
			t.Fatalf("update xattr: %v", err)
		}
		deadline := time.Now().Add(20 * time.Second)
		for db1.DbStats.SharedBucketImport().ImportCount.Value() < importCount+1 && time.Now().Before(deadline) {
			time.Sleep(time.Millisecond)
		}
		if db1.DbStats.SharedBucketImport().ImportCount.Value() < importCount+1 {
			abandon("node 1 did not import the user xattr change within 20 s")
			return
		}
		var syncData SyncData
		xattrs, _, err := c1.dataStore.GetXattrs(ctx1, docID, []string{base.SyncXattrName})
		if err != nil || base.JSONUnmarshal(xattrs[base.SyncXattrName], &syncData) != nil {
			t.Fatalf("read sync data: %v", err)
		}
		if syncData.GetRevTreeID() != revID {
			r.Violate("C16/feed/user-xattr-change-created-a-revision", fmt.Sprintf("revision %s -> %s; %s", revID, syncData.GetRevTreeID(), desc), c)
			return
		}
		// the change has come through node 2's mutation feed
		deadline = time.Now().Add(20 * time.Second)
		for db2.changeCache.getNextSequence() <= syncData.Sequence && time.Now().Before(deadline) {
			time.Sleep(time.Millisecond)
		}
		if db2.changeCache.getNextSequence() <= syncData.Sequence {
			abandon("node 2's feed did not reach the import's sequence within 20 s")
			return
		}
		for _, how := range c.Reads {
			var rev DocumentRevision
			var rerr error
			switch how {
			case "active":
				rev, rerr = c2.revisionCache.GetActive(ctx2, docID)
			case "rev":
				rev, rerr = c2.revisionCache.Get(ctx2, docID, revID, RevCacheDontLoadBackupRev)
			case "cv":
				curCV := cv
				if d2, derr := c2.GetDocument(ctx2, docID, DocUnmarshalSync); derr == nil && d2.HLV != nil {
					curCV = d2.HLV.GetCurrentVersionString()
				}
				rev, rerr = c2.revisionCache.Get(ctx2, docID, curCV, RevCacheDontLoadBackupRev)
			}
			if rerr != nil {
				r.Violate("C16/feed/read-failed/"+how, fmt.Sprintf("%v after step %d; %s", rerr, step, desc), c)
				continue
			}
			got := strings.Join(rev.Channels.ToArray(), ",")
			if got != val {
				r.Violate("C16/feed/stale-channels-after-the-change-came-through-the-feed/"+how, fmt.Sprintf("node 2 served channels [%s] for revision %s through %s although the change to [%s] (step %d) had come through its mutation feed; %s", got, revID, how, val, step, desc), c)
			}
			r.Add("reads", 1)
		}
	}
	r.Distinct("feed_outcomes", desc)
}

func TestVerifC16Feed(t *testing.T) {
	r := vreport.Begin("C16")
	defer r.Finish(t)
	r.Rule("(b) two database contexts on one bucket; node 1 imports 1..3 successive user-xattr channel changes of one document (metadata-only updates); after each, once node 2's mutation feed has passed the import's sequence, node 2 reads the revision through every non-empty subset of {get-active, get by revision id, get by current version}; each read must show the new channels; non-trivial = distinct (value sequence, read set)")
	r.Assume("import and feed delivery are awaited on observable counters with a 20 s horizon after which the scenario is abandoned, not judged")
	if base.TestDisableRevCache() {
		return
	}
	var rc c16bCase
	if r.Replaying(&rc) {
		c16bRun(t, r, rc, 0)
		return
	}
	var valueSeqs [][]string
	for _, a := range []string{"A"} {
		valueSeqs = append(valueSeqs, []string{a})
		for _, b := range []string{"B"} {
			valueSeqs = append(valueSeqs, []string{a, b})
			for _, c := range []string{"A", "C"} {
				valueSeqs = append(valueSeqs, []string{a, b, c})
			}
		}
	}
	forms := []string{"active", "rev", "cv"}
	n := 0
	for _, vs := range valueSeqs {
		for mask := 1; mask < 1<<len(forms); mask++ {
			var reads []string
			for i, f := range forms {
				if mask&(1<<i) != 0 {
					reads = append(reads, f)
				}
			}
			n++
			if !r.Mine(n) || r.Expired() {
				continue
			}
			c := c16bCase{Values: vs, Reads: reads}
			c16bRun(t, r, c, n)
			r.Add("evaluations", 1)
			r.Add("distinct_nontrivial", 1)
			r.Sample(c)
		}
	}
}
