//go:build verif

package db

import (
	"context"
	"crypto/sha1"
	"encoding/base64"
	"fmt"
	"os"
	"sort"
	"strings"
	"testing"
	"time"

	"github.com/couchbase/sync_gateway/base"
	"github.com/couchbase/sync_gateway/verifshim/vreport"
	"github.com/couchbase/sync_gateway/verifshim/vstore"
)

// C14 — attachments stay intact and live exactly as long as a revision needs them.
// E3 at database level: every history up to depth D of writes that add, keep (stub), replace and drop
// attachments across linear updates, a conflicting branch, tombstone and resurrection, with the same content
// shared between names and documents; each history also with a forced compare-and-swap retry at the last
// write. After every write: every attachment of every leaf reads back byte-identical with matching digest and
// length; data referenced by a leaf exists; data referenced by no leaf of its document is gone.

var c14Alphabet = []string{"d1:+aX", "d1:+aY", "d1:+bX", "d1:-a", "d1:keep", "d1:del", "d1:branch+bY", "d1:branchkeep", "d2:+aX", "d2:del"}

var c14Content = map[string][]byte{
	"X": []byte("content-X"),
	"Y": func() []byte {
		b := make([]byte, 257)
		for i := range b {
			b[i] = byte(i) // every byte value once, plus one
		}
		return b
	}(),
}

func c14Digest(b []byte) string {
	h := sha1.Sum(b)
	return "sha1-" + base64.StdEncoding.EncodeToString(h[:])
}

type c14Leaf struct {
	rev     string
	deleted bool
	atts    map[string]string // name -> content id (X|Y)
}

type c14DocModel struct {
	leaves  map[string]*c14Leaf
	current string // the branch linear edits extend (the winning live leaf)
	everKey map[string]bool
}

type c14Case struct {
	Hist     []string `json:"hist"`
	CasRetry bool     `json:"cas_retry"`
	// VV: which of the non-branch writes arrive as revisions from another Sync Gateway under the version-vector
	// protocol (non-conflicting, attachments inline or as stubs, as the replication handler hands them over) instead of
	// being local writes: "" none, "last" the last one, "all" every one
	VV string `json:"vv,omitempty"`
}

type c14Env struct {
	v *vdb
	n int
}

func c14Winner(m *c14DocModel) *c14Leaf {
	var best *c14Leaf
	for _, l := range m.leaves {
		if best == nil {
			best = l
			continue
		}
		if l.deleted != best.deleted {
			if !l.deleted {
				best = l
			}
			continue
		}
		if compareRevIDs(context.Background(), l.rev, best.rev) > 0 {
			best = l
		}
	}
	return best
}

func (e *c14Env) run(t testing.TB, r *vreport.Report, c c14Case) {
	e.n++
	sfx := fmt.Sprintf("_%d", e.n)
	v := e.v
	ctx, coll := v.ctx, v.coll
	docs := map[string]*c14DocModel{}
	H := v.vb.H
	for step, sym := range c.Hist {
		parts := strings.Split(sym, ":")
		id, act := parts[0], parts[1]
		docID := id + sfx
		m := docs[id]
		if m == nil {
			m = &c14DocModel{leaves: map[string]*c14Leaf{}, everKey: map[string]bool{}}
			docs[id] = m
		}
		win := c14Winner(m)
		newAtts := map[string]string{}
		// every body is larger than the inline limit of the revision tree (250 bytes), so the body of a non-winning
		// leaf is kept in a separate document
		body := Body{"step": step, "pad": strings.Repeat("p", 300)}
		inline := map[string]any{}
		stub := func(name, content string) {
			// a stub refers to the parent's attachment by digest and revpos
			inline[name] = map[string]any{"stub": true, "digest": c14Digest(c14Content[content]), "revpos": 1}
		}
		if win != nil && !win.deleted {
			for n, cnt := range win.atts {
				newAtts[n] = cnt
			}
		}
		del := false
		branch := false
		branchStubs := map[string]any{}
		switch {
		case act == "del":
			if win == nil || win.deleted {
				continue
			}
			del = true
			newAtts = map[string]string{}
		case act == "keep":
			if win == nil {
				continue
			}
		case strings.HasPrefix(act, "branch"):
			if win == nil || win.deleted {
				continue
			}
			if g, _ := ParseRevID(ctx, win.rev); g < 2 {
				// a sibling of a first-generation revision would be a second root. Conflicting branches only exist in the
				// legacy allow_conflicts mode, which this server version refuses to configure; a probe showed that adding a
				// second root with an attachment deletes the winner's attachment data (recorded in DESIGN.md as an
				// observation outside the supported configuration), so branches are explored from generation 2 on.
				continue
			}
			branch = true
			newAtts = map[string]string{"b": "Y"}
			if act == "branchkeep" {
				// a sibling that keeps (as stubs) what the winner inherited unchanged from their common parent
				newAtts = map[string]string{}
				if doc, err := coll.GetDocument(ctx, docID, DocUnmarshalAll); err == nil {
					g, _ := ParseRevID(ctx, win.rev)
					for n, meta := range doc.Attachments() {
						mm, _ := meta.(map[string]any)
						if revpos, _ := base.ToInt64(mm["revpos"]); int(revpos) < g {
							if cnt, ok := win.atts[n]; ok {
								newAtts[n] = cnt
								branchStubs[n] = mm["revpos"]
							}
						}
					}
				}
				if len(newAtts) == 0 {
					continue
				}
			}
		case strings.HasPrefix(act, "+"):
			newAtts[string(act[1])] = string(act[2])
		case strings.HasPrefix(act, "-"):
			if _, ok := newAtts[string(act[1])]; !ok {
				continue
			}
			delete(newAtts, string(act[1]))
		}
		// build the _attachments property: new content inline, unchanged entries as stubs
		changedName := ""
		if strings.HasPrefix(act, "+") {
			changedName = string(act[1])
		}
		for n, cnt := range newAtts {
			if rp, isStub := branchStubs[n]; isStub {
				inline[n] = map[string]any{"stub": true, "digest": c14Digest(c14Content[cnt]), "revpos": rp}
				continue
			}
			if branch || n == changedName || win == nil || win.deleted || win.atts[n] != cnt {
				inline[n] = map[string]any{"data": base64.StdEncoding.EncodeToString(c14Content[cnt])}
			} else {
				stub(n, cnt)
			}
		}
		if len(inline) > 0 {
			body[BodyAttachments] = inline
		}
		// stubs need the real revpos: fetch it from the stored metadata
		if win != nil && !win.deleted && !branch {
			if doc, err := coll.GetDocument(ctx, docID, DocUnmarshalAll); err == nil {
				for n, meta := range doc.Attachments() {
					if st, ok := inline[n].(map[string]any); ok && st["stub"] == true {
						if mm, ok := meta.(map[string]any); ok {
							st["revpos"] = mm["revpos"]
						}
					}
				}
			}
		}
		last := step == len(c.Hist)-1
		if c.CasRetry && last {
			fired := false
			H.Enabled = true
			H.Select = func(op, key string) bool { return key == docID }
			H.Plan = func(seq int, op, key string, write bool) vstore.Injection {
				if op == "WriteUpdateWithXattrs.write" && !fired {
					fired = true
					return vstore.CasMismatch
				}
				return vstore.None
			}
		}
		var newRev string
		var err error
		if branch {
			// a sibling of the current winner: same parent, different digest
			doc, gerr := coll.GetDocument(ctx, docID, DocUnmarshalAll)
			if gerr != nil {
				continue
			}
			parent := doc.History[win.rev].Parent
			gen, _ := ParseRevID(ctx, win.rev)
			newRev = fmt.Sprintf("%d-branch%d", gen, step)
			hist := []string{newRev}
			if parent != "" {
				hist = append(hist, parent)
			}
			_, _, err = coll.PutExistingRevWithBody(ctx, docID, body, hist, false, ExistingVersionWithUpdateToHLV)
		} else {
			if win != nil {
				body[BodyRev] = win.rev
			}
			if del {
				body = Body{BodyRev: win.rev, BodyDeleted: true}
			}
			if c.VV == "all" || (c.VV == "last" && last) {
				newRev, err = c14PutVV(ctx, coll, docID, win, body, del, step)
			} else {
				newRev, _, err = coll.Put(ctx, docID, body)
			}
		}
		H.Plan, H.Select, H.Enabled = nil, nil, false
		rep := c14Case{Hist: c.Hist[:step+1], CasRetry: c.CasRetry && last, VV: c.VV}
		if c.VV == "last" && !last {
			rep.VV = ""
		}
		tag := fmt.Sprintf("cas_retry=%v", c.CasRetry && last)
		tag0 := tag // recognised mechanisms about conflicting branches are the same finding whichever way the other writes arrive
		if rep.VV != "" {
			tag += "/vv=" + rep.VV
		}
		if err != nil {
			r.Violate("C14/write-failed/"+act+"/"+tag, fmt.Sprintf("step %d %q of %v failed: %v", step, sym, c.Hist, err), rep)
			return
		}
		if !branch && win != nil {
			delete(m.leaves, win.rev)
		}
		m.leaves[newRev] = &c14Leaf{rev: newRev, deleted: del, atts: newAtts}
		if os.Getenv("VERIF_DEBUG") != "" {
			if dd, derr := coll.GetDocument(ctx, docID, DocUnmarshalAll); derr == nil {
				fmt.Printf("DEBUG after %s (newRev %s): current=%s leaves=%v docAtts=%v\n", sym, newRev, dd.GetRevTreeID(), dd.History.GetLeaves(), dd.Attachments())
				for _, l := range dd.History.GetLeaves() {
					ri := dd.History[l]
					fmt.Printf("DEBUG   leaf %s parent=%s deleted=%v hasAtt=%v bodyKey=%q inlineBody=%.120q\n", l, ri.Parent, ri.Deleted, ri.HasAttachments, ri.BodyKey, ri.Body)
				}
			}
		}
		if branch {
			// root cause check: a pushed revision that does not become the winner must leave the winner's attachment
			// metadata alone (the symptoms - winner's attachments gone, orphaned bodies, the new leaf read without its
			// own attachments - would otherwise each be reported separately)
			if dd, derr := coll.GetDocument(ctx, docID, DocUnmarshalAll); derr == nil && win != nil && dd.GetRevTreeID() == win.rev && dd.GetRevTreeID() != newRev {
				var got []string
				for n, meta := range dd.Attachments() {
					mm, _ := meta.(map[string]any)
					got = append(got, fmt.Sprintf("%s=%v", n, mm["digest"]))
				}
				sort.Strings(got)
				var want []string
				for n, cnt := range win.atts {
					want = append(want, fmt.Sprintf("%s=%s", n, c14Digest(c14Content[cnt])))
				}
				sort.Strings(want)
				if strings.Join(got, ",") != strings.Join(want, ",") {
					r.Violate("C14/losing-branch-replaces-the-winners-attachment-metadata/"+tag0, fmt.Sprintf("after pushing the non-winning sibling %s (attachments %v) the winning revision %s lists attachments %v, it listed %v before; history %v", newRev, newAtts, win.rev, got, want, c.Hist[:step+1]), rep)
					return
				}
				// ... and the pushed leaf itself must read back with the attachments it was pushed with
				if b, gerr := coll.Get1xRevBody(ctx, docID, newRev, false, []string{}); gerr == nil {
					var names []string
					for n := range GetBodyAttachments(b) {
						names = append(names, n)
					}
					sort.Strings(names)
					var wantNames []string
					for n := range newAtts {
						wantNames = append(wantNames, n)
					}
					sort.Strings(wantNames)
					if strings.Join(names, ",") != strings.Join(wantNames, ",") {
						r.Violate("C14/losing-branch-read-back-without-its-attachments/"+tag0, fmt.Sprintf("the non-winning sibling %s was pushed with attachments %v and reads back with %v; history %v", newRev, wantNames, names, c.Hist[:step+1]), rep)
						return
					}
				}
			}
		}
		// ---- checks after every write, for every document and leaf
		for did, dm := range docs {
			fullID := did + sfx
			referenced := map[string]bool{}
			for _, leaf := range dm.leaves {
				if leaf.deleted {
					continue
				}
				b, gerr := coll.Get1xRevBody(ctx, fullID, leaf.rev, false, []string{})
				if gerr != nil {
					fp := "C14/leaf-unreadable/" + tag
					if del && did == id && len(dm.leaves) > 1 {
						// mechanism: the winning branch was tombstoned, which promotes this leaf of another branch to current
						// revision; the sweep of the tombstoned winner's attachments removed what the promoted leaf lists
						fp = "C14/promoted-leaf-loses-attachment-when-the-winning-branch-is-tombstoned/" + tag0
					}
					r.Violate(fp, fmt.Sprintf("leaf %s of %s cannot be read with attachments: %v; history %v", leaf.rev, did, gerr, c.Hist[:step+1]), rep)
					if strings.HasPrefix(fp, "C14/promoted-leaf") {
						return // the rest of this history runs on a state that is already wrong for a recorded reason
					}
					continue
				}
				got := GetBodyAttachments(b)
				var names []string
				for n := range got {
					names = append(names, n)
				}
				sort.Strings(names)
				var wantNames []string
				for n := range leaf.atts {
					wantNames = append(wantNames, n)
				}
				sort.Strings(wantNames)
				if strings.Join(names, ",") != strings.Join(wantNames, ",") {
					r.Violate("C14/attachment-set-wrong/"+act+"/"+tag, fmt.Sprintf("leaf %s of %s has attachments %v, expected %v; history %v", leaf.rev, did, names, wantNames, c.Hist[:step+1]), rep)
					continue
				}
				for n, cnt := range leaf.atts {
					meta, _ := got[n].(map[string]any)
					want := c14Content[cnt]
					var data []byte
					switch d := meta["data"].(type) {
					case []byte:
						data = d
					case string:
						data, _ = base64.StdEncoding.DecodeString(d)
					}
					if string(data) != string(want) {
						r.Violate("C14/attachment-bytes-differ/"+act+"/"+tag, fmt.Sprintf("attachment %s of leaf %s of %s reads back %d bytes, written %d (content %s); history %v", n, leaf.rev, did, len(data), len(want), cnt, c.Hist[:step+1]), rep)
					}
					if dg, _ := meta["digest"].(string); dg != c14Digest(want) {
						r.Violate("C14/digest-mismatch/"+tag, fmt.Sprintf("attachment %s of %s advertises digest %v, content digest %s", n, did, meta["digest"], c14Digest(want)), rep)
					}
					if ln, ok := base.ToInt64(meta["length"]); !ok || ln != int64(len(want)) {
						r.Violate("C14/length-mismatch/"+tag, fmt.Sprintf("attachment %s of %s advertises length %v, content length %d", n, did, meta["length"], len(want)), rep)
					}
					key := MakeAttachmentKey(AttVersion2, fullID, c14Digest(want))
					referenced[key] = true
					dm.everKey[key] = true
					if blob, aerr := coll.GetAttachment(ctx, key); aerr != nil || string(blob) != string(want) {
						r.Violate("C14/referenced-data-missing/"+act+"/"+tag, fmt.Sprintf("attachment data %s referenced by leaf %s of %s is missing or wrong: %v; history %v", key, leaf.rev, did, aerr, c.Hist[:step+1]), rep)
					}
				}
			}
			for key := range dm.everKey {
				if referenced[key] {
					continue
				}
				if _, aerr := coll.GetAttachment(ctx, key); aerr == nil {
					r.Violate("C14/unreferenced-data-not-cleaned-up/"+act+"/"+tag, fmt.Sprintf("attachment data %s of %s is referenced by no leaf any more but still exists; history %v", key, did, c.Hist[:step+1]), rep)
				}
			}
		}
		r.Add("writes_checked", 1)
	}
}

// c14PutVV writes the update as a non-conflicting revision received from another Sync Gateway under the version-vector
// protocol: the incoming vector dominates the local one and the revision-tree history continues the local winner
func c14PutVV(ctx context.Context, coll *DatabaseCollectionWithUser, docID string, win *c14Leaf, body Body, del bool, step int) (string, error) {
	incoming := &HybridLogicalVector{SourceID: "cmVtb3Rl", Version: uint64(time.Now().UnixNano()) + 1000000000, PreviousVersions: HLVVersions{}}
	gen := 1
	var history []string
	if win != nil {
		cur, err := coll.GetDocument(ctx, docID, DocUnmarshalSync)
		if err != nil {
			return "", err
		}
		g, _ := ParseRevID(ctx, win.rev)
		gen = g + 1
		history = []string{win.rev}
		if cur.HLV != nil {
			for src, v := range cur.HLV.PreviousVersions {
				incoming.PreviousVersions[src] = v
			}
			if cur.HLV.SourceID != incoming.SourceID {
				incoming.PreviousVersions[cur.HLV.SourceID] = cur.HLV.Version
			}
			if cur.HLV.Version >= incoming.Version {
				incoming.Version = cur.HLV.Version + 1000
			}
			delete(incoming.PreviousVersions, incoming.SourceID)
		}
	}
	rev := fmt.Sprintf("%d-vv%d", gen, step)
	history = append([]string{rev}, history...)
	newDoc := &Document{ID: docID, RevID: rev, Deleted: del, HLV: incoming}
	b := Body{}
	for k, v := range body {
		if k != BodyRev && k != BodyDeleted && k != BodyAttachments {
			b[k] = v
		}
	}
	// The replication handler asks the sender only for attachment bodies it does not have: an attachment whose body is
	// already stored for this document is verified against it and handed on as a stub carrying the new digest.
	atts := GetBodyAttachments(body)
	for name, v := range atts {
		meta, _ := v.(map[string]any)
		if meta == nil || meta["data"] == nil {
			continue
		}
		data, derr := DecodeAttachment(meta["data"])
		if derr != nil {
			continue
		}
		digest := Sha1DigestKey(data)
		if _, gerr := coll.GetAttachment(ctx, MakeAttachmentKey(AttVersion2, docID, digest)); gerr == nil {
			atts[name] = map[string]any{"stub": true, "digest": digest, "revpos": gen, "length": len(data), "ver": AttVersion2}
		}
	}
	newDoc.SetAttachments(atts)
	newDoc.UpdateBody(b)
	_, _, _, err := coll.PutExistingCurrentVersion(ctx, PutDocOptions{NewDoc: newDoc, RevTreeHistory: history, NewDocHLV: incoming, ISGRWrite: true,
		ForceAllowConflictingTombstone: del, ConflictResolver: NewConflictResolver(DefaultLWWConflictResolutionType, nil)})
	return rev, err
}

func TestVerifC14(t *testing.T) {
	r := vreport.Begin("C14")
	defer r.Finish(t)
	r.Rule("every history of depth D from the empty database, and of depth D-1 from two bases whose current revision inherited its attachment(s) from its parent, over {add or replace attachment a with content X / Y, add b with X (same content under a second name), drop a, update keeping all attachments as stubs, tombstone, conflicting sibling branch carrying b=Y, conflicting sibling branch keeping the inherited attachments as stubs (every body is larger than the revision tree's inline limit, so a non-winning leaf's body is stored separately), the same content on a second document, tombstone of the second document}, each also with a forced compare-and-swap retry at the last write; after every write every leaf of every document is read back with attachments; non-trivial = distinct (history, cas-retry)")
	r.Assume("database-level API (conflicts allowed so that branches exist); content X is a short text, Y contains every byte value; cross-cluster versioning is off; the replication protocol's attachment allow-list window is not explored here")
	oldFreq := MaxSequenceIncrFrequency
	defer func() { MaxSequenceIncrFrequency = oldFreq }()
	e := &c14Env{}
	fresh := func() {
		if e.v != nil {
			e.v.close()
		}
		e.v = newVDB(t, DatabaseContextOptions{AllowConflicts: base.Ptr(true), Scopes: GetScopesOptionsDefaultCollectionOnly(t)})
		// The in-memory bucket always reports cross-cluster versioning as enabled, which switches the obsolete-attachment
		// sweep off altogether. The property's clean-up clause is about the other mode, so the cached flag is cleared.
		e.v.db.CachedCCVEnabled.Store(false)
	}
	fresh()
	defer func() { e.v.close() }()
	var rc c14Case
	if r.Replaying(&rc) {
		e.run(t, r, rc)
		return
	}
	D := 3
	if r.Thorough() {
		D = 4
	}
	r.Note("depth", D)
	idx := 0
	// histories from the empty database up to depth D, and up to depth D (quick: D) more from bases in which the
	// current revision already inherited an attachment from its parent (what sibling branches and stubs need)
	bases := [][]string{nil, {"d1:+aX", "d1:keep"}, {"d1:+aX", "d1:+bX", "d1:keep"}}
	var base []string
	var rec func(h []string)
	rec = func(h []string) {
		if len(h) == D+len(base)-map[bool]int{true: 1, false: 0}[len(base) > 0] {
			for _, vv := range []string{"", "last", "all"} {
				for _, cas := range []bool{false, true} {
					idx++
					if !r.Mine(idx) || r.Expired() {
						continue
					}
					if e.n%200 == 199 {
						fresh()
					}
					e.run(t, r, c14Case{Hist: append([]string{}, h...), CasRetry: cas, VV: vv})
					r.Add("evaluations", 1)
					r.Add("distinct_nontrivial", 1)
					if idx%499 == 0 {
						r.Sample(c14Case{Hist: append([]string{}, h...), CasRetry: cas, VV: vv})
					}
				}
			}
			return
		}
		for _, s := range c14Alphabet {
			rec(append(append([]string{}, h...), s))
		}
	}
	for _, b := range bases {
		base = b
		rec(append([]string{}, b...))
	}
	if r.Expired() {
		r.Cap("time budget reached before all histories were explored")
	}
}
