//go:build verif

package db

import (
	"bytes"
	"encoding/json"
	"fmt"
	"math/big"
	"strings"
	"testing"

	"github.com/couchbase/sync_gateway/base"
	"github.com/couchbase/sync_gateway/verifshim/vreport"
)

// C19 (part b) — body fidelity of revisions that are not read through the ordinary current-revision path: a
// non-winning conflicting leaf (stored inside the revision tree when small, in a separate document when large), read
// by revision id, and read as the current revision after the winning branch is tombstoned (the stored body of the
// promoted leaf becomes the document body). Every numeric / string atom of the grammar, small and large bodies.

func c19bEqual(a, b any) bool {
	switch x := a.(type) {
	case json.Number:
		y, ok := b.(json.Number)
		if !ok {
			return false
		}
		rx, ok1 := new(big.Rat).SetString(string(x))
		ry, ok2 := new(big.Rat).SetString(string(y))
		if !ok1 || !ok2 {
			return string(x) == string(y)
		}
		return rx.Cmp(ry) == 0
	case map[string]any:
		y, ok := b.(map[string]any)
		if !ok || len(x) != len(y) {
			return false
		}
		for k, v := range x {
			w, ok := y[k]
			if !ok || !c19bEqual(v, w) {
				return false
			}
		}
		return true
	case []any:
		y, ok := b.([]any)
		if !ok || len(x) != len(y) {
			return false
		}
		for i := range x {
			if !c19bEqual(x[i], y[i]) {
				return false
			}
		}
		return true
	default:
		return fmt.Sprint(a) == fmt.Sprint(b) && fmt.Sprintf("%T", a) == fmt.Sprintf("%T", b)
	}
}

func c19bParse(b []byte) (map[string]any, error) {
	dec := json.NewDecoder(bytes.NewReader(b))
	dec.UseNumber()
	var v map[string]any
	err := dec.Decode(&v)
	for k := range v {
		if strings.HasPrefix(k, "_") {
			delete(v, k)
		}
	}
	return v, err
}

type c19bCase struct {
	Atom  string `json:"atom"`
	Large bool   `json:"large"`
}

func c19bRun(t testing.TB, r *vreport.Report, coll *DatabaseCollectionWithUser, n int, c c19bCase) {
	ctx := coll.AddCollectionContext(base.TestCtx(t))
	docID := fmt.Sprintf("c19b-%d", n)
	pad := ""
	if c.Large {
		pad = `,"pad":"` + strings.Repeat("p", 300) + `"`
	}
	raw := `{"v":` + c.Atom + `,"arr":[` + c.Atom + `,{"n":` + c.Atom + `}]` + pad + `}`
	want, err := c19bParse([]byte(raw))
	if err != nil {
		t.Fatalf("harness body %s: %v", raw, err)
	}
	mk := func(s string) Body {
		var b Body
		if err := b.Unmarshal([]byte(s)); err != nil {
			t.Fatalf("body: %v", err)
		}
		return b
	}
	if _, _, err := coll.PutExistingRevWithBody(ctx, docID, mk(`{"v":"root"}`), []string{"1-a"}, false, ExistingVersionWithUpdateToHLV); err != nil {
		t.Fatalf("1-a: %v", err)
	}
	// 2-z wins over 2-b (same generation, higher digest)
	if _, _, err := coll.PutExistingRevWithBody(ctx, docID, mk(`{"v":"winner"}`), []string{"2-z", "1-a"}, false, ExistingVersionWithUpdateToHLV); err != nil {
		t.Fatalf("2-z: %v", err)
	}
	if _, _, err := coll.PutExistingRevWithBody(ctx, docID, mk(raw), []string{"2-b", "1-a"}, false, ExistingVersionWithUpdateToHLV); err != nil {
		r.Violate("C19/conflict/losing-leaf-write-failed", fmt.Sprintf("push of losing leaf with body %s: %v", raw, err), c)
		return
	}
	tag := fmt.Sprintf("large=%v", c.Large)
	check := func(stage, how string, got []byte) {
		g, err := c19bParse(got)
		if err != nil {
			r.Violate("C19/conflict/"+stage+"/not-json/"+tag, fmt.Sprintf("%s returned %s for written %s", how, got, raw), c)
			return
		}
		if !c19bEqual(want, g) {
			r.Violate("C19/conflict/"+stage+"/body-changed/"+tag, fmt.Sprintf("written %s as a non-winning leaf, %s returned %s", raw, how, got), c)
		}
		r.Add("reads", 1)
	}
	// read the losing leaf by revision id
	if b, err := coll.Get1xRevBody(ctx, docID, "2-b", false, nil); err != nil {
		r.Violate("C19/conflict/losing-leaf/read-failed/"+tag, fmt.Sprintf("read of 2-b: %v (body %s)", err, raw), c)
	} else {
		bb, _ := base.JSONMarshal(b)
		check("losing-leaf", "GET by revision id", bb)
	}
	// tombstone the winner: 2-b becomes the current revision
	if _, _, err := coll.PutExistingRevWithBody(ctx, docID, Body{BodyDeleted: true}, []string{"3-z", "2-z", "1-a"}, false, ExistingVersionWithUpdateToHLV); err != nil {
		t.Fatalf("3-z: %v", err)
	}
	doc, err := coll.GetDocument(ctx, docID, DocUnmarshalAll)
	if err != nil {
		r.Violate("C19/conflict/promoted/read-failed/"+tag, err.Error(), c)
		return
	}
	if doc.GetRevTreeID() != "2-b" {
		r.Violate("C19/conflict/promoted/wrong-current-revision/"+tag, "current revision is "+doc.GetRevTreeID(), c)
		return
	}
	bodyBytes, _ := doc.BodyBytes(ctx)
	check("promoted", "the document body after promotion", bodyBytes)
	if b, err := coll.Get1xRevBody(ctx, docID, "2-b", false, nil); err == nil {
		bb, _ := base.JSONMarshal(b)
		check("promoted", "GET by revision id after promotion", bb)
	}
	rawDoc, _, _ := coll.dataStore.GetRaw(ctx, docID)
	check("promoted", "the stored document", rawDoc)
}

func TestVerifC19Conflict(t *testing.T) {
	r := vreport.Begin("C19")
	defer r.Finish(t)
	r.Rule("(b) every atom of the grammar (numbers incl. -0, exponents, integers beyond 2^53 and 2^64, long decimals; strings incl. empty, non-ASCII, escapes; literals; empty containers) placed at top level, inside an array and inside a nested object of a revision that is pushed as a NON-winning conflicting leaf, with a small body (kept inside the revision tree) and a body above 250 bytes (kept in a separate document); read by revision id, then, after the winning branch is tombstoned, as the current revision (document body, by revision id, raw stored document); non-trivial = distinct (atom, size)")
	r.Assume("database-level API with conflicts allowed")
	db, ctx := SetupTestDBWithOptions(t, DatabaseContextOptions{AllowConflicts: base.Ptr(true), CacheOptions: base.Ptr(DefaultCacheOptions())})
	defer db.Close(ctx)
	coll, _ := GetSingleDatabaseCollectionWithUser(ctx, t, db)
	var rc c19bCase
	if r.Replaying(&rc) {
		c19bRun(t, r, coll, 0, rc)
		return
	}
	atoms := []string{"0", "-0", "1", "1.0", "1e2", "1E-2", "-1.5e+3", "9007199254740993", "-9007199254740993", "9223372036854775807", "18446744073709551616", "123456789012345678901234567890", "0.1234567890123456789012345", "1e400",
		`""`, `"a"`, `"é中"`, `"😀"`, `"q\"\\\/\b\f\n\r\t"`, `"\u0000"`, "true", "false", "null", "[]", "{}"}
	n := 0
	for _, a := range atoms {
		for _, large := range []bool{false, true} {
			n++
			if !r.Mine(n) {
				continue
			}
			c := c19bCase{Atom: a, Large: large}
			c19bRun(t, r, coll, n, c)
			r.Add("evaluations", 1)
			r.Add("distinct_nontrivial", 1)
			r.Sample(c)
		}
	}
}
