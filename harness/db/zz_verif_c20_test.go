//go:build verif

package db

import (
	"encoding/json"
	"fmt"
	"math/big"
	"strings"
	"testing"

	"github.com/couchbase/sync_gateway/base"
	"github.com/couchbase/sync_gateway/verifshim/vreport"
)

// C20 — sequence tokens round-trip and order consistently. Complete enumeration (E3) of
//   (a) all SequenceID values with fields in 0..N: order laws on the raw domain and on the emitted domain,
//       emitted-token round trip (String->parse, MarshalJSON->UnmarshalJSON), SafeSequence preservation;
//   (b) every string up to a length bound over a small alphabet: accepted <=> an independent recogniser
//       accepts, with equal value; rejection is a client (4xx) error.

type c20Case struct {
	Kind string     `json:"kind"`
	A    SequenceID `json:"-"`
	Toks [][3]uint64 `json:"toks,omitempty"`
	Str  string     `json:"str,omitempty"`
}

func c20tok(s SequenceID) [3]uint64 { return [3]uint64{s.LowSeq, s.TriggeredBy, s.Seq} }
func c20seq(t [3]uint64) SequenceID {
	return SequenceID{LowSeq: t[0], TriggeredBy: t[1], Seq: t[2]}
}

// independent recogniser: "" | D | D:D | D:[D]:D, D = 1..20 ASCII digits not overflowing uint64.
func c20Recognise(s string) (SequenceID, bool) {
	if s == "" {
		return SequenceID{}, true
	}
	num := func(c string, allowEmpty bool) (uint64, bool) {
		if c == "" {
			return 0, allowEmpty
		}
		for _, r := range c {
			if r < '0' || r > '9' {
				return 0, false
			}
		}
		v, ok := new(big.Int).SetString(c, 10)
		if !ok || !v.IsUint64() {
			return 0, false
		}
		return v.Uint64(), true
	}
	parts := strings.Split(s, ":")
	switch len(parts) {
	case 1:
		v, ok := num(parts[0], false)
		return SequenceID{Seq: v}, ok
	case 2:
		a, ok1 := num(parts[0], false)
		b, ok2 := num(parts[1], false)
		return SequenceID{TriggeredBy: a, Seq: b}, ok1 && ok2
	case 3:
		a, ok1 := num(parts[0], false)
		b, ok2 := num(parts[1], true)
		c, ok3 := num(parts[2], false)
		return SequenceID{LowSeq: a, TriggeredBy: b, Seq: c}, ok1 && ok2 && ok3
	}
	return SequenceID{}, false
}

func c20CheckToken(r *vreport.Report, x SequenceID) {
	str := x.String()
	r.Distinct("emitted_forms", c20Form(str))
	p, err := ParsePlainSequenceID(str)
	rep := c20Case{Kind: "token", Toks: [][3]uint64{c20tok(x)}}
	if err != nil {
		r.Violate("C20/token/emitted-token-rejected/"+c20Form(str), fmt.Sprintf("token %+v emitted as %q does not parse: %v", x, str, err), rep)
		return
	}
	if p.SafeSequence() != x.SafeSequence() {
		r.Violate("C20/token/resume-position-changed/"+c20Form(str), fmt.Sprintf("token %+v emitted as %q parses to %+v: resume position %d != %d", x, str, p, p.SafeSequence(), x.SafeSequence()), rep)
	}
	if p.String() != str {
		r.Violate("C20/token/string-not-stable/"+c20Form(str), fmt.Sprintf("token %+v emitted as %q re-emits as %q", x, str, p.String()), rep)
	}
	if p.Seq != x.Seq {
		r.Violate("C20/token/seq-changed/"+c20Form(str), fmt.Sprintf("token %+v emitted as %q parses to %+v", x, str, p), rep)
	}
	// JSON form
	b, err := x.MarshalJSON()
	if err != nil {
		r.Violate("C20/token/marshal-error", fmt.Sprintf("%+v: %v", x, err), rep)
		return
	}
	var q SequenceID
	if err := json.Unmarshal(b, &q); err != nil {
		r.Violate("C20/token/json-rejected/"+c20Form(str), fmt.Sprintf("token %+v marshals to %s which does not unmarshal: %v", x, b, err), rep)
		return
	}
	if q != p {
		r.Violate("C20/token/json-differs-from-plain/"+c20Form(str), fmt.Sprintf("token %+v: JSON %s -> %+v, plain %q -> %+v", x, b, q, str, p), rep)
	}
	// also through the JSON-string parser used by the replication protocol
	q2, err := ParseJSONSequenceID(string(b))
	if err != nil || q2 != p {
		r.Violate("C20/token/blip-json-parse/"+c20Form(str), fmt.Sprintf("token %+v: ParseJSONSequenceID(%s) = %+v, %v; want %+v", x, b, q2, err, p), rep)
	}
}

func c20Form(s string) string {
	switch strings.Count(s, ":") {
	case 0:
		return "simple"
	case 1:
		return "triggered"
	default:
		if strings.Contains(s, "::") {
			return "low"
		}
		return "low+triggered"
	}
}

func c20CheckTriple(r *vreport.Report, dom string, a, b, c SequenceID) {
	ab, bc, ac := a.Before(b), b.Before(c), a.Before(c)
	if ab && bc && !ac {
		r.Violate("C20/order/"+dom+"/not-transitive", fmt.Sprintf("%+v < %+v < %+v but not %+v < %+v", a, b, c, a, c),
			c20Case{Kind: "triple-" + dom, Toks: [][3]uint64{c20tok(a), c20tok(b), c20tok(c)}})
	}
}

func c20CheckPair(r *vreport.Report, dom string, a, b SequenceID) {
	if a == b {
		if a.Before(a) {
			r.Violate("C20/order/"+dom+"/reflexive", fmt.Sprintf("%+v is before itself", a), c20Case{Kind: "pair-" + dom, Toks: [][3]uint64{c20tok(a), c20tok(b)}})
		}
		return
	}
	if a.Before(b) && b.Before(a) {
		r.Violate("C20/order/"+dom+"/not-asymmetric", fmt.Sprintf("%+v and %+v are each before the other", a, b), c20Case{Kind: "pair-" + dom, Toks: [][3]uint64{c20tok(a), c20tok(b)}})
	}
}

func c20CheckString(r *vreport.Report, s string) {
	want, ok := c20Recognise(s)
	got, err := ParsePlainSequenceID(s)
	rep := c20Case{Kind: "string", Str: s}
	shape := c20Shape(s)
	if ok {
		r.Add("strings_wellformed", 1)
		if err != nil {
			r.Violate("C20/parse/wellformed-rejected/"+shape, fmt.Sprintf("%q is well-formed but rejected: %v", s, err), rep)
		} else if got != want {
			r.Violate("C20/parse/misparsed/"+shape, fmt.Sprintf("%q parsed as %+v, want %+v", s, got, want), rep)
		}
		return
	}
	r.Add("strings_malformed", 1)
	if err == nil {
		r.Violate("C20/parse/malformed-accepted/"+shape, fmt.Sprintf("%q is malformed but parsed as %+v", s, got), rep)
		return
	}
	if status, _ := base.ErrorAsHTTPStatus(err); status < 400 || status > 499 {
		r.Violate(fmt.Sprintf("C20/parse/malformed-not-client-error/components=%d", strings.Count(s, ":")+1),
			fmt.Sprintf("%q is rejected with %T %q which maps to HTTP %d, not a 4xx client error", s, err, err.Error(), status), rep)
	}
	// JSON path must reject too
	var q SequenceID
	if jerr := q.UnmarshalJSON([]byte(`"` + strings.ReplaceAll(s, `"`, `\"`) + `"`)); jerr == nil && !strings.Contains(s, `"`) && !strings.Contains(s, `\`) {
		r.Violate("C20/parse/json-malformed-accepted/"+shape, fmt.Sprintf("JSON string %q accepted as %+v", s, q), rep)
	}
}

// shape abstracts a string to its character classes, for fingerprints.
func c20Shape(s string) string {
	var b strings.Builder
	var last byte
	for i := 0; i < len(s); i++ {
		c := s[i]
		cl := c
		if c >= '0' && c <= '9' {
			cl = 'D'
		}
		if cl == 'D' && last == 'D' {
			continue
		}
		b.WriteByte(cl)
		last = cl
	}
	return b.String()
}

func TestVerifC20(t *testing.T) {
	r := vreport.Begin("C20")
	defer r.Finish(t)
	r.Rule("complete enumeration: every SequenceID with (LowSeq,TriggeredBy,Seq) in 0..N^3 (tokens), every ordered pair and triple of them on the raw domain and on the emitted domain parse(String(x)); every string of length <= L over the alphabet {0,1,9,:,-,+,a,space,\",18446744073709551616-ish overflow digits via 9-runs}. A case is non-trivial when it is a distinct token/string; counted exactly.")
	r.Assume("values above N behave like values in 0..N (Before/String/SafeSequence only compare fields with <,<=,==,0)")

	var rc c20Case
	if r.Replaying(&rc) {
		switch {
		case rc.Kind == "token":
			c20CheckToken(r, c20seq(rc.Toks[0]))
		case strings.HasPrefix(rc.Kind, "pair-"):
			c20CheckPair(r, strings.TrimPrefix(rc.Kind, "pair-"), c20seq(rc.Toks[0]), c20seq(rc.Toks[1]))
		case strings.HasPrefix(rc.Kind, "triple-"):
			c20CheckTriple(r, strings.TrimPrefix(rc.Kind, "triple-"), c20seq(rc.Toks[0]), c20seq(rc.Toks[1]), c20seq(rc.Toks[2]))
		case rc.Kind == "string":
			c20CheckString(r, rc.Str)
		}
		r.Add("evaluations", 1)
		return
	}

	N := uint64(6)
	L := 5
	if r.Thorough() {
		N, L = 11, 7
	}
	r.Note("N", N)
	r.Note("L", L)

	var raw []SequenceID
	for l := uint64(0); l <= N; l++ {
		for tb := uint64(0); tb <= N; tb++ {
			for s := uint64(0); s <= N; s++ {
				raw = append(raw, SequenceID{LowSeq: l, TriggeredBy: tb, Seq: s})
			}
		}
	}
	// emitted domain: distinct parse(String(x))
	emSet := map[SequenceID]bool{}
	var emitted []SequenceID
	for i, x := range raw {
		if r.Mine(i) {
			c20CheckToken(r, x)
			r.Add("tokens", 1)
			r.Add("evaluations", 1)
			if i < 40 && i%13 == 0 {
				r.Sample(map[string]any{"token": c20tok(x), "emitted": x.String(), "safe": x.SafeSequence()})
			}
		}
		if p, err := ParsePlainSequenceID(x.String()); err == nil && !emSet[p] {
			emSet[p] = true
			emitted = append(emitted, p)
		}
	}
	r.Note("emitted_domain_size", len(emitted))

	for _, dom := range []struct {
		name string
		set  []SequenceID
	}{{"raw", raw}, {"emitted", emitted}} {
		for i, a := range dom.set {
			if !r.Mine(i) {
				continue
			}
			for _, b := range dom.set {
				c20CheckPair(r, dom.name, a, b)
				ab := a.Before(b)
				if ab {
					r.Add("ordered_pairs_"+dom.name, 1)
				}
				for _, c := range dom.set {
					if ab && b.Before(c) && !a.Before(c) {
						c20CheckTriple(r, dom.name, a, b, c)
					}
				}
			}
			n := int64(len(dom.set))
			r.Add("pairs_"+dom.name, n)
			r.Add("triples_"+dom.name, n*n)
			r.Add("evaluations", n+n*n)
		}
	}

	// strings
	alphabet := []string{"0", "1", "9", ":", "-", "+", "a", " ", "\""}
	idx := 0
	var gen func(prefix string, depth int)
	gen = func(prefix string, depth int) {
		if depth == 1 {
			// shard at depth 1 subtrees combined with second char
		}
		if depth <= L {
			idx++
			if r.Mine(idx) {
				c20CheckString(r, prefix)
				r.Add("strings", 1)
				r.Add("evaluations", 1)
				if idx%9973 == 0 {
					r.Sample(map[string]any{"string": prefix})
				}
			}
		}
		if depth == L {
			return
		}
		for _, a := range alphabet {
			gen(prefix+a, depth+1)
		}
	}
	gen("", 0)
	// boundary strings beyond the alphabet: uint64 overflow and long digit runs in every component position
	max := "18446744073709551615"
	over := "18446744073709551616"
	extra := []string{max, over, max + ":" + max, over + ":1", "1:" + over, max + ":" + max + ":" + max, over + "::1", "1:" + over + ":1", "1::" + over,
		"1:2:3:4", ":::", "1:::", "0x1", "1_0", "１", "1e3", "1.0", "-0", "+0", " 1", "1 ", "\t1", "1\n", "\"1\"", "\"1:2\"", "1:-2", "١"}
	for i, s := range extra {
		if r.Mine(i) {
			c20CheckString(r, s)
			r.Add("strings", 1)
			r.Add("evaluations", 1)
		}
	}
	r.Add("distinct_nontrivial", r.Get("tokens")+r.Get("strings"))
}
