//go:build verif

package db

import (
	"context"
	"fmt"
	"sort"
	"strings"
	"testing"

	"github.com/couchbase/sync_gateway/base"
	"github.com/couchbase/sync_gateway/verifshim/vreport"
	"github.com/couchbase/sync_gateway/verifshim/vstate"
)

// C17 — replication checkpoints never run ahead of processed changes.
// E2 over the real Checkpointer: events expect / already-known / processed / tick. A tick calls the real
// _updateCheckpointLists under the lock (its result is exactly what CheckpointNow persists) and, like
// _setCheckpoints, records it as lastCheckpointSeq.

type c17Event struct {
	Op string `json:"op"` // expect1, expect2, known, proc, tick
	K  int    `json:"k,omitempty"`
}

type c17Config struct {
	Universe  string `json:"universe"`
	Mode      string `json:"mode"` // push | pull-lookup | pull-seq
	Threshold int    `json:"threshold"`
}

var c17Universes = map[string][]SequenceID{
	"simple":   {{Seq: 1}, {Seq: 2}, {Seq: 3}, {Seq: 4}, {Seq: 5}, {Seq: 6}},
	"backfill": {{Seq: 3}, {Seq: 4}, {TriggeredBy: 5, Seq: 1}, {TriggeredBy: 5, Seq: 2}, {Seq: 5}, {Seq: 6}},
	"lowseq":   {{Seq: 1}, {LowSeq: 1, Seq: 3}, {LowSeq: 1, Seq: 4}, {Seq: 2}, {LowSeq: 2, Seq: 5}, {Seq: 6}},
	"lowtrig":  {{Seq: 1}, {LowSeq: 1, TriggeredBy: 6, Seq: 2}, {LowSeq: 1, TriggeredBy: 6, Seq: 3}, {LowSeq: 2, TriggeredBy: 6, Seq: 4}, {Seq: 6}, {Seq: 7}},
	"long":     {{Seq: 1}, {Seq: 2}, {Seq: 3}, {TriggeredBy: 7, Seq: 4}, {TriggeredBy: 7, Seq: 5}, {Seq: 7}, {LowSeq: 7, Seq: 9}, {Seq: 10}},
}

type c17Inst struct {
	cfg       c17Config
	uni       []SequenceID
	c         *Checkpointer
	announced int
	processed []bool // model: per universe index, processed or already-known
	last      *SequenceID
	ticks     int
}

func c17New(cfg c17Config) *c17Inst {
	uni := c17Universes[cfg.Universe]
	c := &Checkpointer{
		expectedSeqs:                   make([]SequenceID, 0),
		processedSeqs:                  make(map[SequenceID]struct{}),
		idAndRevLookup:                 make(map[IDAndRev]SequenceID),
		ctx:                            context.Background(),
		expectedSeqCompactionThreshold: cfg.Threshold,
		stats: CheckpointerStats{
			ExpectedSequenceLen:             &base.SgwIntStat{},
			ExpectedSequenceLenPostCleanup:  &base.SgwIntStat{},
			ProcessedSequenceLen:            &base.SgwIntStat{},
			ProcessedSequenceLenPostCleanup: &base.SgwIntStat{},
		},
	}
	return &c17Inst{cfg: cfg, uni: uni, c: c, processed: make([]bool, len(uni))}
}

func (in *c17Inst) Close() {}

func (in *c17Inst) Enabled() []c17Event {
	var ev []c17Event
	if in.announced < len(in.uni) {
		ev = append(ev, c17Event{Op: "expect1"}, c17Event{Op: "known"})
	}
	if in.announced+1 < len(in.uni) {
		ev = append(ev, c17Event{Op: "expect2"})
	}
	for i := 0; i < in.announced; i++ {
		if !in.processed[i] {
			ev = append(ev, c17Event{Op: "proc", K: i})
		}
	}
	ev = append(ev, c17Event{Op: "tick"})
	return ev
}

func c17IDRev(i int) IDAndRev { return IDAndRev{DocID: fmt.Sprintf("doc%d", i), RevID: "1-a"} }

func (in *c17Inst) expect(n int) {
	switch in.cfg.Mode {
	case "push":
		in.c.AddExpectedSeqs(in.uni[in.announced : in.announced+n]...)
	default:
		m := map[IDAndRev]SequenceID{}
		for i := in.announced; i < in.announced+n; i++ {
			m[c17IDRev(i)] = in.uni[i]
		}
		in.c.AddExpectedSeqIDAndRevs(m)
	}
	in.announced += n
}

func (in *c17Inst) Apply(e c17Event) map[string]string {
	switch e.Op {
	case "expect1":
		in.expect(1)
	case "expect2":
		in.expect(2)
	case "known":
		in.c.AddAlreadyKnownSeq(in.uni[in.announced])
		in.processed[in.announced] = true
		in.announced++
	case "proc":
		s := in.uni[e.K]
		switch in.cfg.Mode {
		case "push":
			in.c.AddProcessedSeq(s)
		case "pull-lookup":
			in.c.AddProcessedSeqIDAndRev(nil, c17IDRev(e.K))
		default:
			in.c.AddProcessedSeqIDAndRev(&s, c17IDRev(e.K))
		}
		in.processed[e.K] = true
	case "tick":
		in.ticks++
		in.c.lock.Lock()
		s := in.c._updateCheckpointLists()
		if s != nil {
			in.c.lastCheckpointSeq = *s // what _setCheckpoints does after persisting
		}
		in.c.lock.Unlock()
		if s == nil {
			return nil
		}
		viol := map[string]string{}
		for i := 0; i < in.announced; i++ {
			e2 := in.uni[i]
			if (e2.Before(*s) || e2 == *s) && !in.processed[i] {
				viol[fmt.Sprintf("C17/%s/checkpoint-ahead-of-unprocessed", in.cfg.Mode)] = fmt.Sprintf(
					"tick persisted checkpoint %s although expected change %s (universe %s index %d) is neither processed nor already known; threshold=%d",
					s.String(), e2.String(), in.cfg.Universe, i, in.cfg.Threshold)
			}
		}
		if in.last != nil && s.Before(*in.last) {
			viol[fmt.Sprintf("C17/%s/checkpoint-moved-backwards", in.cfg.Mode)] = fmt.Sprintf("checkpoint %s persisted after %s (universe %s, threshold %d)", s.String(), in.last.String(), in.cfg.Universe, in.cfg.Threshold)
		}
		announcedSet := false
		for i := 0; i < in.announced; i++ {
			if in.uni[i] == *s {
				announcedSet = true
			}
		}
		if !announcedSet {
			viol[fmt.Sprintf("C17/%s/checkpoint-not-an-announced-position", in.cfg.Mode)] = fmt.Sprintf("checkpoint %s was never announced (universe %s)", s.String(), in.cfg.Universe)
		}
		cp := *s
		in.last = &cp
		if len(viol) == 0 {
			return nil
		}
		return viol
	}
	return nil
}

func (in *c17Inst) Canon() string {
	var b strings.Builder
	fmt.Fprintf(&b, "a%d|", in.announced)
	for _, p := range in.processed {
		if p {
			b.WriteByte('1')
		} else {
			b.WriteByte('0')
		}
	}
	exp := make([]string, 0, len(in.c.expectedSeqs))
	for _, s := range in.c.expectedSeqs {
		exp = append(exp, fmt.Sprintf("%d.%d.%d", s.LowSeq, s.TriggeredBy, s.Seq))
	}
	sort.Strings(exp)
	proc := make([]string, 0, len(in.c.processedSeqs))
	for s := range in.c.processedSeqs {
		proc = append(proc, fmt.Sprintf("%d.%d.%d", s.LowSeq, s.TriggeredBy, s.Seq))
	}
	sort.Strings(proc)
	look := make([]string, 0)
	for k := range in.c.idAndRevLookup {
		look = append(look, k.DocID)
	}
	sort.Strings(look)
	last := "-"
	if in.last != nil {
		last = in.last.String()
	}
	fmt.Fprintf(&b, "|%v|%v|%v|%s|%s", exp, proc, look, last, in.c.lastCheckpointSeq.String())
	return b.String()
}

type c17Replay struct {
	Cfg  c17Config  `json:"cfg"`
	Hist []c17Event `json:"hist"`
}

func TestVerifC17(t *testing.T) {
	r := vreport.Begin("C17")
	defer r.Finish(t)
	r.Rule("explicit-state BFS to fixpoint over the real Checkpointer for every (universe, mode, compaction threshold); state = canonical(model announced/processed, real expectedSeqs, processedSeqs, idAndRevLookup, last checkpoint); every transition is a real method call; non-trivial = distinct canonical state")
	r.Assume("changes are announced in feed order (ascending under SequenceID.Before) and each announced id is distinct; processed/known notifications may arrive in any order")

	mk := func(cfg c17Config) vstate.Config[c17Event] {
		return vstate.Config[c17Event]{
			Name:     fmt.Sprintf("%s/%s/t%d", cfg.Universe, cfg.Mode, cfg.Threshold),
			New:      func() vstate.Instance[c17Event] { return c17New(cfg) },
			MaxDepth: 64,
			Replay: func(name string, hist []c17Event) any {
				return c17Replay{Cfg: cfg, Hist: hist}
			},
		}
	}
	var rc c17Replay
	if r.Replaying(&rc) {
		vstate.ReplayHistory(r, mk(rc.Cfg), rc.Hist)
		return
	}
	universes := []string{"simple", "backfill", "lowseq", "lowtrig"}
	if r.Thorough() {
		universes = append(universes, "long")
	}
	idx := 0
	for _, u := range universes {
		for _, mode := range []string{"push", "pull-lookup", "pull-seq"} {
			for _, th := range []int{100, 1, 2, 0} {
				idx++
				if !r.Mine(idx) {
					continue
				}
				cfg := c17Config{Universe: u, Mode: mode, Threshold: th}
				res := vstate.Explore(r, mk(cfg))
				r.Add("configs", 1)
				if !res.Complete {
					r.Cap("depth bound before fixpoint in " + u)
				}
			}
		}
	}
	r.Add("distinct_nontrivial", r.Get("states"))
}
