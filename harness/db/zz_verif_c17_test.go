//go:build verif

package db

import (
	"context"
	"fmt"
	"sort"
	"strings"
	"testing"

	"github.com/couchbase/go-blip"
	"github.com/couchbase/sync_gateway/base"
	"github.com/couchbase/sync_gateway/verifshim/vreport"
	"github.com/couchbase/sync_gateway/verifshim/vstate"
)

// C17 — replication checkpoints never run ahead of processed changes.
// E2 over the real Checkpointer: events expect / already-known / processed / tick. A tick calls the real
// _updateCheckpointLists under the lock (its result is exactly what CheckpointNow persists) and, like
// _setCheckpoints, records it as lastCheckpointSeq.
// Announcements inside one batch may reach the checkpointer in either order (expect2 / expect2r; a pull batch is a
// Go map). "cancel" cancels the replicator context the checkpointer watches; the model keeps recording what the
// replicator requested and received, because a persisted checkpoint must not pass a requested-but-unreceived change
// whether or not the checkpointer listened. In mode pull-handler the announcements are made by the real
// blipHandler.handleChanges on a real collection (wanted = revision unknown locally, known = revision present), bound
// to the checkpointer exactly as ActiveReplicator's pull does, optionally with a tick between its two callbacks.

type c17Event struct {
	Op string `json:"op"` // expect1, expect2, expect2r, known, proc, tick, cancel, batch
	K  int    `json:"k,omitempty"`
	// batch only: Shape over the next entries (W wanted, K known), Mid = a tick runs between the handler's two callbacks
	Shape string `json:"shape,omitempty"`
	Mid   bool   `json:"mid,omitempty"`
}

// shared by every pull-handler instance of a worker: a real collection holding doc0..doc7 at one revision each
var c17Coll *DatabaseCollectionWithUser
var c17Ctx context.Context
var c17Revs []string

type c17Config struct {
	Universe  string `json:"universe"`
	Mode      string `json:"mode"` // push | pull-lookup | pull-seq
	Threshold int    `json:"threshold"`
}

var c17Universes = map[string][]SequenceID{
	"simple":   {{Seq: 1}, {Seq: 2}, {Seq: 3}, {Seq: 4}, {Seq: 5}, {Seq: 6}},
	"backfill": {{Seq: 3}, {Seq: 4}, {TriggeredBy: 5, Seq: 1}, {TriggeredBy: 5, Seq: 2}, {Seq: 5}, {Seq: 6}},
	"lowseq":   {{Seq: 1}, {LowSeq: 1, Seq: 3}, {LowSeq: 1, Seq: 4}, {Seq: 2}, {LowSeq: 2, Seq: 5}, {Seq: 6}},
	"lowtrig":  {{Seq: 1}, {LowSeq: 1, TriggeredBy: 6, Seq: 2}, {LowSeq: 1, TriggeredBy: 6, Seq: 3}, {LowSeq: 2, TriggeredBy: 6, Seq: 4}, {Seq: 6}, {Seq: 7}},
	"long":     {{Seq: 1}, {Seq: 2}, {Seq: 3}, {TriggeredBy: 7, Seq: 4}, {TriggeredBy: 7, Seq: 5}, {Seq: 7}, {LowSeq: 7, Seq: 9}, {Seq: 10}},
}

type c17Inst struct {
	cfg       c17Config
	uni       []SequenceID
	c         *Checkpointer
	announced int
	processed []bool // model: per universe index, processed or already-known
	last      *SequenceID
	ticks     int
	cancel    context.CancelFunc
	cancelled bool
}

func c17New(cfg c17Config) *c17Inst {
	uni := c17Universes[cfg.Universe]
	cctx, cancel := context.WithCancel(context.Background())
	c := &Checkpointer{
		expectedSeqs:                   make([]SequenceID, 0),
		processedSeqs:                  make(map[SequenceID]struct{}),
		idAndRevLookup:                 make(map[IDAndRev]SequenceID),
		ctx:                            cctx,
		expectedSeqCompactionThreshold: cfg.Threshold,
		stats: CheckpointerStats{
			ExpectedSequenceLen:             &base.SgwIntStat{},
			ExpectedSequenceLenPostCleanup:  &base.SgwIntStat{},
			ProcessedSequenceLen:            &base.SgwIntStat{},
			ProcessedSequenceLenPostCleanup: &base.SgwIntStat{},
		},
	}
	return &c17Inst{cfg: cfg, uni: uni, c: c, processed: make([]bool, len(uni)), cancel: cancel}
}

func (in *c17Inst) Close() { in.cancel() }

func (in *c17Inst) Enabled() []c17Event {
	var ev []c17Event
	if in.cfg.Mode == "pull-handler" {
		if in.announced < len(in.uni) {
			ev = append(ev, c17Event{Op: "batch", Shape: "W"}, c17Event{Op: "batch", Shape: "K"})
		}
		if in.announced+1 < len(in.uni) {
			for _, sh := range []string{"WK", "KW", "KK"} { // at most one wanted entry per batch: the handler's map then has one order
				ev = append(ev, c17Event{Op: "batch", Shape: sh})
			}
			for _, sh := range []string{"WK", "KW"} {
				ev = append(ev, c17Event{Op: "batch", Shape: sh, Mid: true})
			}
		}
	} else {
		if in.announced < len(in.uni) {
			ev = append(ev, c17Event{Op: "expect1"}, c17Event{Op: "known"})
		}
		if in.announced+1 < len(in.uni) {
			ev = append(ev, c17Event{Op: "expect2"}, c17Event{Op: "expect2r"})
		}
	}
	if !in.cancelled {
		ev = append(ev, c17Event{Op: "cancel"})
	}
	for i := 0; i < in.announced; i++ {
		if !in.processed[i] {
			ev = append(ev, c17Event{Op: "proc", K: i})
		}
	}
	ev = append(ev, c17Event{Op: "tick"})
	return ev
}

func c17IDRev(i int) IDAndRev { return IDAndRev{DocID: fmt.Sprintf("doc%d", i), RevID: "1-a"} }

// expect announces the next n entries of one batch; the order in which they reach the checkpointer is the harness's
// choice (a pull batch is a map, so either order is a legal execution of AddExpectedSeqIDAndRevs)
func (in *c17Inst) expect(n int, reversed bool) {
	idxs := make([]int, 0, n)
	for i := in.announced; i < in.announced+n; i++ {
		idxs = append(idxs, i)
	}
	if reversed {
		for l, r := 0, len(idxs)-1; l < r; l, r = l+1, r-1 {
			idxs[l], idxs[r] = idxs[r], idxs[l]
		}
	}
	switch in.cfg.Mode {
	case "push":
		seqs := make([]SequenceID, 0, n)
		for _, i := range idxs {
			seqs = append(seqs, in.uni[i])
		}
		in.c.AddExpectedSeqs(seqs...)
	default:
		for _, i := range idxs {
			in.c.AddExpectedSeqIDAndRevs(map[IDAndRev]SequenceID{c17IDRev(i): in.uni[i]})
		}
	}
	in.announced += n
}

// tick is what CheckpointNow persists; returns the violations it shows
func (in *c17Inst) tick() map[string]string {
	in.ticks++
	in.c.lock.Lock()
	s := in.c._updateCheckpointLists()
	if s != nil {
		in.c.lastCheckpointSeq = *s // what _setCheckpoints does after persisting
	}
	in.c.lock.Unlock()
	if s == nil {
		return nil
	}
	viol := map[string]string{}
	for i := 0; i < in.announced; i++ {
		e2 := in.uni[i]
		if (e2.Before(*s) || e2 == *s) && !in.processed[i] {
			viol[fmt.Sprintf("C17/%s/checkpoint-ahead-of-unprocessed", in.cfg.Mode)] = fmt.Sprintf(
				"tick persisted checkpoint %s although expected change %s (universe %s index %d) is neither processed nor already known; threshold=%d cancelled=%v",
				s.String(), e2.String(), in.cfg.Universe, i, in.cfg.Threshold, in.cancelled)
		}
	}
	if in.last != nil && s.Before(*in.last) {
		viol[fmt.Sprintf("C17/%s/checkpoint-moved-backwards", in.cfg.Mode)] = fmt.Sprintf("checkpoint %s persisted after %s (universe %s, threshold %d)", s.String(), in.last.String(), in.cfg.Universe, in.cfg.Threshold)
	}
	announcedSet := false
	for i := 0; i < in.announced; i++ {
		if in.uni[i] == *s {
			announcedSet = true
		}
	}
	if !announcedSet {
		viol[fmt.Sprintf("C17/%s/checkpoint-not-an-announced-position", in.cfg.Mode)] = fmt.Sprintf("checkpoint %s was never announced (universe %s)", s.String(), in.cfg.Universe)
	}
	cp := *s
	in.last = &cp
	if len(viol) == 0 {
		return nil
	}
	return viol
}

// batch delivers one changes message to the real handler
func (in *c17Inst) batch(shape string, mid bool) map[string]string {
	var rows []string
	start := in.announced
	for j, ch := range shape {
		i := start + j
		rev := "9-ffffffffffffffffffffffffffffffff"
		if ch == 'K' {
			rev = c17Revs[i]
			in.processed[i] = true
		}
		rows = append(rows, fmt.Sprintf(`[%q,"doc%d",%q]`, in.uni[i].String(), i, rev))
	}
	in.announced += len(shape) // the peer has announced the whole message; wanted entries are requested by the handler's answer
	calls := 0
	var viol map[string]string
	between := func() {
		calls++
		if mid && calls == 1 {
			viol = in.tick()
		}
	}
	bh := &blipHandler{
		BlipSyncContext: &BlipSyncContext{loggingCtx: c17Ctx, replicationStats: NewBlipSyncStats(), activeCBMobileSubprotocol: CBMobileReplicationV3},
		collection:      c17Coll,
		loggingCtx:      c17Ctx,
		collectionCtx: &blipSyncCollectionContext{
			// bound as in ActivePullReplicator (active_replicator_pull.go)
			sgr2PullAddExpectedSeqsCallback: func(m map[IDAndRev]SequenceID) {
				in.c.AddExpectedSeqIDAndRevs(m)
				between()
			},
			sgr2PullAlreadyKnownSeqsCallback: func(s ...SequenceID) {
				in.c.AddAlreadyKnownSeq(s...)
				between()
			},
		},
	}
	rq := blip.NewParsedIncomingMessage(nil, blip.RequestType, blip.Properties{ChangesMessageIgnoreNoConflicts: trueProperty}, []byte("["+strings.Join(rows, ",")+"]"))
	if err := bh.handleChanges(rq); err != nil {
		return map[string]string{"C17/pull-handler/handler-error": err.Error()}
	}
	if calls != 2 {
		return map[string]string{"C17/pull-handler/handler-callbacks": fmt.Sprintf("handleChanges made %d checkpointer callbacks, 2 expected", calls)}
	}
	return viol
}

func (in *c17Inst) Apply(e c17Event) map[string]string {
	switch e.Op {
	case "expect1":
		in.expect(1, false)
	case "expect2":
		in.expect(2, false)
	case "expect2r":
		in.expect(2, true)
	case "cancel":
		in.cancel()
		in.cancelled = true
	case "batch":
		return in.batch(e.Shape, e.Mid)
	case "known":
		in.c.AddAlreadyKnownSeq(in.uni[in.announced])
		in.processed[in.announced] = true
		in.announced++
	case "proc":
		s := in.uni[e.K]
		switch in.cfg.Mode {
		case "push":
			in.c.AddProcessedSeq(s)
		case "pull-lookup":
			in.c.AddProcessedSeqIDAndRev(nil, c17IDRev(e.K))
		case "pull-handler":
			in.c.AddProcessedSeqIDAndRev(nil, IDAndRev{DocID: fmt.Sprintf("doc%d", e.K), RevID: "9-ffffffffffffffffffffffffffffffff"})
		default:
			in.c.AddProcessedSeqIDAndRev(&s, c17IDRev(e.K))
		}
		in.processed[e.K] = true
	case "tick":
		return in.tick()
	}
	return nil
}

func (in *c17Inst) Canon() string {
	var b strings.Builder
	fmt.Fprintf(&b, "a%d|c%v|", in.announced, in.cancelled)
	for _, p := range in.processed {
		if p {
			b.WriteByte('1')
		} else {
			b.WriteByte('0')
		}
	}
	exp := make([]string, 0, len(in.c.expectedSeqs))
	for _, s := range in.c.expectedSeqs {
		exp = append(exp, fmt.Sprintf("%d.%d.%d", s.LowSeq, s.TriggeredBy, s.Seq))
	}
	// expectedSeqs in its actual order: the code sorts before every use, so order-merged states would have equal
	// futures on the unchanged tree, but keeping the order costs little and does not rely on that
	proc := make([]string, 0, len(in.c.processedSeqs))
	for s := range in.c.processedSeqs {
		proc = append(proc, fmt.Sprintf("%d.%d.%d", s.LowSeq, s.TriggeredBy, s.Seq))
	}
	sort.Strings(proc)
	look := make([]string, 0)
	for k := range in.c.idAndRevLookup {
		look = append(look, k.DocID)
	}
	sort.Strings(look)
	last := "-"
	if in.last != nil {
		last = in.last.String()
	}
	fmt.Fprintf(&b, "|%v|%v|%v|%s|%s", exp, proc, look, last, in.c.lastCheckpointSeq.String())
	return b.String()
}

type c17Replay struct {
	Cfg  c17Config  `json:"cfg"`
	Hist []c17Event `json:"hist"`
}

func TestVerifC17(t *testing.T) {
	r := vreport.Begin("C17")
	defer r.Finish(t)
	r.Rule("explicit-state BFS to fixpoint over the real Checkpointer for every (universe, mode, compaction threshold); state = canonical(model announced/processed, real expectedSeqs, processedSeqs, idAndRevLookup, last checkpoint); every transition is a real method call; non-trivial = distinct canonical state")
	r.Assume("batches are announced in feed order (ascending under SequenceID.Before), entries inside a batch in either order, each announced id distinct; processed/known notifications may arrive in any order; a tick is atomic with respect to the callbacks (each holds the checkpointer lock throughout)")

	mk := func(cfg c17Config) vstate.Config[c17Event] {
		return vstate.Config[c17Event]{
			Name:     fmt.Sprintf("%s/%s/t%d", cfg.Universe, cfg.Mode, cfg.Threshold),
			New:      func() vstate.Instance[c17Event] { return c17New(cfg) },
			MaxDepth: 64,
			Replay: func(name string, hist []c17Event) any {
				return c17Replay{Cfg: cfg, Hist: hist}
			},
		}
	}
	{
		database, ctx := setupTestDB(t)
		defer database.Close(ctx)
		c17Coll, c17Ctx = GetSingleDatabaseCollectionWithUser(ctx, t, database)
		c17Ctx = c17Coll.AddCollectionContext(c17Ctx)
		c17Revs = nil
		for i := 0; i < 8; i++ {
			rev, _, err := c17Coll.Put(c17Ctx, fmt.Sprintf("doc%d", i), Body{"k": i})
			if err != nil {
				t.Fatalf("put: %v", err)
			}
			c17Revs = append(c17Revs, rev)
		}
	}
	var rc c17Replay
	if r.Replaying(&rc) {
		vstate.ReplayHistory(r, mk(rc.Cfg), rc.Hist)
		return
	}
	universes := []string{"simple", "backfill", "lowseq", "lowtrig"}
	if r.Thorough() {
		universes = append(universes, "long")
	}
	idx := 0
	for _, u := range universes {
		for _, mode := range []string{"push", "pull-lookup", "pull-seq", "pull-handler"} {
			for _, th := range []int{100, 1, 2, 0} {
				idx++
				if !r.Mine(idx) {
					continue
				}
				cfg := c17Config{Universe: u, Mode: mode, Threshold: th}
				res := vstate.Explore(r, mk(cfg))
				r.Add("configs", 1)
				if !res.Complete {
					r.Cap("depth bound before fixpoint in " + u)
				}
			}
		}
	}
	r.Add("distinct_nontrivial", r.Get("states"))
}
