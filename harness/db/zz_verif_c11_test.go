//go:build verif

package db

import (
	"context"
	"encoding/json"
	"errors"
	"fmt"
	"regexp"
	"sort"
	"strings"
	"testing"
	"time"

	"github.com/couchbase/sync_gateway/auth"
	"github.com/couchbase/sync_gateway/base"
	"github.com/couchbase/sync_gateway/channels"
	"github.com/couchbase/sync_gateway/verifshim/vreport"
	"github.com/couchbase/sync_gateway/verifshim/vsched"
	"github.com/couchbase/sync_gateway/verifshim/vstore"
)

// C11 — writes are all-or-nothing, and success is only reported when durable.
// Fault enumeration: for each operation kind, run once fault-free recording the storage operations the
// operation issues; then for every operation index (thorough: every pair) and every applicable failure
// mode, run the same request on a fresh, identically prepared database with that fault injected, and
// compare the API result with a read-back of observable state through the un-faulted handle.

const c11SyncFn = `function(doc, oldDoc) {
	if (doc.reject) { throw({forbidden: "rejected by sync function"}); }
	if (doc.need) { requireAccess(doc.need); }
	channel(doc.channels);
	if (doc.grant) { access(doc.grant.user, doc.grant.chan); }
	if (doc.grole) { role(doc.grole.user, "role:" + doc.grole.role); }
}`

type c11World struct {
	v        *vdb
	revD1    string
	revDatt  string
	session  string
	session2 string
	session3 string // a one-time session of carol
	seqKnown map[uint64]string
	revDc1   string // dc: rev 1, then a local rev 2 (live)
	verDc1   uint64 // version of dc's first revision
	revDct1  string // dct: rev 1, then a local tombstone
	verDct1  uint64
	revDl1   string // dl: two revisions, no version vector (legacy document)
	revDl2   string
}

func c11Setup(t testing.TB) *c11World {
	MaxSequenceIncrFrequency = 0
	v := newVDB(t, DatabaseContextOptions{})
	ctx, coll := v.ctx, v.coll
	v.vb.H.Enabled = true // log everything (accounting); no plan, no scheduling yet
	if _, err := coll.UpdateSyncFun(ctx, c11SyncFn); err != nil {
		t.Fatalf("sync fn: %v", err)
	}
	w := &c11World{v: v, seqKnown: map[uint64]string{}}
	a := v.db.Authenticator(ctx)
	mkUser := func(name string, chans ...string) {
		_, _, err := v.db.UpdatePrincipal(ctx, &auth.PrincipalConfig{Name: base.Ptr(name), Password: base.Ptr("letmein"),
			ExplicitChannels: base.SetFromArray(chans)}, true, false)
		if err != nil {
			t.Fatalf("setup user %s: %v", name, err)
		}
		v.waitFeed() // a principal rewritten before its previous mutation is delivered loses that sequence on the feed
	}
	_, _, err := v.db.UpdatePrincipal(ctx, &auth.PrincipalConfig{Name: base.Ptr("r1"), ExplicitChannels: base.SetOf("R")}, false, false)
	if err != nil {
		t.Fatalf("setup role: %v", err)
	}
	v.waitFeed()
	mkUser("alice", "A")
	mkUser("carol", "A")
	var d *Document
	w.revD1, d, err = coll.Put(ctx, "d1", Body{"channels": []string{"A"}, "v": 1})
	if err != nil {
		t.Fatalf("setup d1: %v", err)
	}
	_ = d
	w.revDatt, _, err = coll.Put(ctx, "datt", Body{"channels": []string{"A"}, BodyAttachments: map[string]any{"a.txt": map[string]any{"data": "aGVsbG8gd29ybGQ="}}})
	if err != nil {
		t.Fatalf("setup datt: %v", err)
	}
	if _, _, err = coll.Put(ctx, "g1", Body{"channels": []string{"A"}, "grant": map[string]any{"user": "carol", "chan": "G"}}); err != nil {
		t.Fatalf("setup g1: %v", err)
	}
	alice, _ := a.GetUser("alice")
	sess, err := a.CreateSession(ctx, alice, time.Hour, false)
	if err != nil {
		t.Fatalf("setup session: %v", err)
	}
	w.session = sess.ID
	carol, _ := a.GetUser("carol")
	once, err := a.CreateSession(ctx, carol, time.Hour, true)
	if err != nil {
		t.Fatalf("setup one-time session: %v", err)
	}
	w.session3 = once.ID
	// documents with a local second revision (live / tombstone): targets of replicated writes that conflict with it
	for _, id := range []string{"dc", "dct"} {
		rev1, d1, err := coll.Put(ctx, id, Body{"channels": []string{"A"}, "v": 1})
		if err != nil {
			t.Fatalf("setup %s: %v", id, err)
		}
		if id == "dc" {
			w.revDc1, w.verDc1 = rev1, d1.HLV.Version
			if _, _, err = coll.Put(ctx, id, Body{BodyRev: rev1, "channels": []string{"A"}, "v": "local"}); err != nil {
				t.Fatalf("setup %s rev 2: %v", id, err)
			}
		} else {
			w.revDct1, w.verDct1 = rev1, d1.HLV.Version
			if _, _, err = coll.DeleteDoc(ctx, id, DocVersion{RevTreeID: rev1}); err != nil {
				t.Fatalf("setup %s tombstone: %v", id, err)
			}
		}
	}
	// documents as a pre-version-vector Sync Gateway left them: revision tree only, no _vv xattr ("dl" live at rev 2)
	{
		rev1, _, err := coll.Put(ctx, "dl", Body{"channels": []string{"A"}, "v": 1})
		if err != nil {
			t.Fatalf("setup dl: %v", err)
		}
		w.revDl1 = rev1
		if w.revDl2, _, err = coll.Put(ctx, "dl", Body{BodyRev: rev1, "channels": []string{"A"}, "v": "local"}); err != nil {
			t.Fatalf("setup dl rev 2: %v", err)
		}
		_, cas, err := coll.dataStore.GetXattrs(ctx, "dl", []string{base.VvXattrName})
		if err != nil {
			t.Fatalf("setup dl: read _vv: %v", err)
		}
		if err := coll.dataStore.RemoveXattrs(ctx, "dl", []string{base.VvXattrName}, cas); err != nil {
			t.Fatalf("setup dl: remove _vv: %v", err)
		}
	}
	// an externally written document (not yet imported)
	if err := coll.dataStore.SetRaw(ctx, "ext1", 0, nil, []byte(`{"channels":["A"],"ext":true}`)); err != nil {
		t.Fatalf("setup ext1: %v", err)
	}
	v.waitFeed()
	return w
}

type c11Op struct {
	Name   string
	Reject bool // the fault-free run is expected to be rejected
	Run    func(w *c11World) error
}

func c11Ops() []c11Op {
	put := func(id string, bodyJSON string) func(w *c11World) error {
		return func(w *c11World) error {
			var body Body // rebuilt for every run: Put consumes the map it is given
			if err := json.Unmarshal([]byte(bodyJSON), &body); err != nil {
				panic(err)
			}
			_, _, err := w.v.coll.Put(w.v.ctx, id, body)
			return err
		}
	}
	upd := func(mut func(w *c11World, b Body)) func(w *c11World) error {
		return func(w *c11World) error {
			b := Body{BodyRev: w.revD1, "channels": []string{"A"}, "v": 2}
			mut(w, b)
			_, _, err := w.v.coll.Put(w.v.ctx, "d1", b)
			return err
		}
	}
	return []c11Op{
		{Name: "doc-create", Run: put("n1", `{"channels":["A"],"v":1}`)},
		{Name: "doc-update", Run: upd(func(w *c11World, b Body) {})},
		{Name: "doc-update-move-and-grant", Run: upd(func(w *c11World, b Body) {
			b["channels"] = []string{"B"}
			b["grant"] = map[string]any{"user": "alice", "chan": "C"}
			b["grole"] = map[string]any{"user": "alice", "role": "r1"}
		})},
		{Name: "doc-delete", Run: func(w *c11World) error {
			_, _, err := w.v.coll.DeleteDoc(w.v.ctx, "d1", DocVersion{RevTreeID: w.revD1})
			return err
		}},
		{Name: "granting-doc-delete", Run: func(w *c11World) error {
			doc, err := w.v.coll.GetDocument(w.v.ctx, "g1", DocUnmarshalSync)
			if err != nil {
				return err
			}
			_, _, err = w.v.coll.DeleteDoc(w.v.ctx, "g1", DocVersion{RevTreeID: doc.GetRevTreeID()})
			return err
		}},
		{Name: "doc-create-with-attachment", Run: put("n2", `{"channels":["A"],"_attachments":{"b.txt":{"data":"Ynl0ZXM="}}}`)},
		{Name: "doc-update-drop-attachment", Run: func(w *c11World) error {
			_, _, err := w.v.coll.Put(w.v.ctx, "datt", Body{BodyRev: w.revDatt, "channels": []string{"A"}, "v": 2})
			return err
		}},
		{Name: "doc-update-replace-attachment", Run: func(w *c11World) error {
			_, _, err := w.v.coll.Put(w.v.ctx, "datt", Body{BodyRev: w.revDatt, "channels": []string{"A"}, BodyAttachments: map[string]any{"a.txt": map[string]any{"data": "bmV3IGNvbnRlbnQ="}}})
			return err
		}},
		{Name: "push-revision", Run: func(w *c11World) error {
			_, _, err := w.v.coll.PutExistingRevWithBody(w.v.ctx, "d1", Body{"channels": []string{"A", "B"}, "v": 7}, []string{"2-abc", w.revD1}, true, ExistingVersionWithUpdateToHLV)
			return err
		}},
		{Name: "pull-conflict-local-wins", Run: c11Pull("dc", false, LocalWinsConflictResolver)},
		{Name: "pull-conflict-remote-wins", Run: c11Pull("dc", false, RemoteWinsConflictResolver)},
		{Name: "pull-conflict-default", Run: c11Pull("dc", false, DefaultConflictResolver)},
		{Name: "pull-conflict-remote-tombstone", Run: c11Pull("dc", true, DefaultConflictResolver)},
		{Name: "pull-conflict-local-tombstone", Run: c11Pull("dct", false, DefaultConflictResolver)},
		{Name: "pull-conflict-local-tombstone-local-wins", Run: c11Pull("dct", false, LocalWinsConflictResolver)},
		{Name: "vv-pull-conflict-local-wins", Run: c11PullVV("dc", false, true, LocalWinsConflictResolver)},
		{Name: "vv-pull-conflict-remote-wins", Run: c11PullVV("dc", false, true, RemoteWinsConflictResolver)},
		{Name: "vv-pull-conflict-default", Run: c11PullVV("dc", false, true, DefaultLWWConflictResolutionType)},
		{Name: "vv-pull-conflict-local-tombstone", Run: c11PullVV("dct", false, true, LocalWinsConflictResolver)},
		{Name: "vv-pull-conflict-remote-tombstone", Run: c11PullVV("dc", true, true, RemoteWinsConflictResolver)},
		{Name: "vv-pull-no-conflict", Run: c11PullVV("dc", false, false, DefaultLWWConflictResolutionType)},
		{Name: "vv-pull-no-conflict-other-revtree", Run: c11PullVVOtherTree("dc")},
		{Name: "vv-pull-onto-legacy-doc-continuing-it", Run: c11PullVVLegacy(false)},
		{Name: "vv-pull-onto-legacy-doc-conflicting", Run: c11PullVVLegacy(true)},
		{Name: "legacy-rev-push-onto-legacy-doc", Run: func(w *c11World) error {
			_, _, err := w.v.coll.PutExistingRevWithBody(w.v.ctx, "dl", Body{"channels": []string{"A", "B"}, "v": "client"}, []string{"3-ccc", w.revDl2, w.revDl1}, true, ExistingVersionLegacyRev)
			return err
		}},
		{Name: "vv-client-push-update", Run: c11ClientPushVV("dc", false, false, false)},
		{Name: "vv-client-push-update-with-revtree-history", Run: c11ClientPushVV("dc", false, false, true)},
		{Name: "vv-client-push-tombstone", Run: c11ClientPushVV("dc", true, false, false)},
		{Name: "vv-client-push-on-tombstone", Run: c11ClientPushVV("dct", false, false, false)},
		{Name: "reject-vv-client-push-conflict", Reject: true, Run: c11ClientPushVV("dc", false, true, false)},
		{Name: "import-on-demand", Run: func(w *c11World) error {
			_, err := w.v.coll.GetDocument(w.v.ctx, "ext1", DocUnmarshalAll)
			return err
		}},
		{Name: "reject-sync-throw", Reject: true, Run: upd(func(w *c11World, b Body) { b["reject"] = true })},
		{Name: "reject-require-access", Reject: true, Run: func(w *c11World) error {
			u, err := w.v.db.Authenticator(w.v.ctx).GetUser("alice")
			if err != nil || u == nil {
				return fmt.Errorf("could not load requesting user: %v", err)
			}
			c := *w.v.coll
			c.user = u
			_, _, err = c.Put(w.v.ctx, "d1", Body{BodyRev: w.revD1, "channels": []string{"A"}, "need": "ZZZ"})
			return err
		}},
		{Name: "reject-conflict", Reject: true, Run: put("d1", `{"_rev":"1-0000","channels":["B"]}`)},
		{Name: "reject-reserved-property", Reject: true, Run: put("n3", `{"channels":["A"],"_purged":true}`)},
		{Name: "user-create", Run: func(w *c11World) error {
			_, _, err := w.v.db.UpdatePrincipal(w.v.ctx, &auth.PrincipalConfig{Name: base.Ptr("bob"), Password: base.Ptr("letmein"), ExplicitChannels: base.SetOf("B"), ExplicitRoleNames: base.SetOf("r1")}, true, false)
			return err
		}},
		{Name: "user-update", Run: func(w *c11World) error {
			_, _, err := w.v.db.UpdatePrincipal(w.v.ctx, &auth.PrincipalConfig{Name: base.Ptr("alice"), ExplicitChannels: base.SetOf("B"), ExplicitRoleNames: base.SetOf("r1")}, true, true)
			return err
		}},
		{Name: "user-set-email", Run: func(w *c11World) error {
			_, _, err := w.v.db.UpdatePrincipal(w.v.ctx, &auth.PrincipalConfig{Name: base.Ptr("alice"), Email: base.Ptr("alice@new.example.org")}, true, true)
			return err
		}},
		{Name: "user-create-with-email", Run: func(w *c11World) error {
			_, _, err := w.v.db.UpdatePrincipal(w.v.ctx, &auth.PrincipalConfig{Name: base.Ptr("bob"), Password: base.Ptr("letmein"), Email: base.Ptr("bob@new.example.org")}, true, false)
			return err
		}},
		{Name: "one-time-session-use", Run: func(w *c11World) error {
			u, err := w.v.db.Authenticator(w.v.ctx).AuthenticateOneTimeSession(w.v.ctx, w.session3)
			if err == nil && u == nil {
				return errors.New("not authenticated")
			}
			return err
		}},
		{Name: "user-disable", Run: func(w *c11World) error {
			_, _, err := w.v.db.UpdatePrincipal(w.v.ctx, &auth.PrincipalConfig{Name: base.Ptr("alice"), Disabled: base.Ptr(true)}, true, true)
			return err
		}},
		{Name: "user-delete", Run: func(w *c11World) error {
			a := w.v.db.Authenticator(w.v.ctx)
			u, err := a.GetUser("alice")
			if err != nil {
				return err
			}
			if u == nil {
				return errors.New("user not found")
			}
			return a.DeleteUser(u)
		}},
		{Name: "role-create", Run: func(w *c11World) error {
			_, _, err := w.v.db.UpdatePrincipal(w.v.ctx, &auth.PrincipalConfig{Name: base.Ptr("r2"), ExplicitChannels: base.SetOf("B")}, false, false)
			return err
		}},
		{Name: "role-delete", Run: func(w *c11World) error { return w.v.db.DeleteRole(w.v.ctx, "r1", false) }},
		{Name: "role-purge", Run: func(w *c11World) error { return w.v.db.DeleteRole(w.v.ctx, "r1", true) }},
		{Name: "session-create", Run: func(w *c11World) error {
			a := w.v.db.Authenticator(w.v.ctx)
			u, err := a.GetUser("carol")
			if err != nil || u == nil {
				return fmt.Errorf("get user: %v", err)
			}
			s, err := a.CreateSession(w.v.ctx, u, time.Hour, false)
			if err == nil {
				w.session2 = s.ID
			}
			return err
		}},
		{Name: "session-delete", Run: func(w *c11World) error {
			return w.v.db.Authenticator(w.v.ctx).DeleteSession(w.v.ctx, w.session, "alice")
		}},
	}
}

// c11Pull is a revision arriving through a pull replication (rev-tree protocol) that conflicts with the local second
// revision of the document and is resolved by the given resolver
func c11Pull(id string, deleted bool, resolver ConflictResolverFunc) func(w *c11World) error {
	return func(w *c11World) error {
		rev1 := w.revDc1
		if id == "dct" {
			rev1 = w.revDct1
		}
		newDoc := &Document{ID: id, Deleted: deleted, RevID: "2-bbb"}
		if !deleted {
			newDoc.UpdateBody(Body{"channels": []string{"A", "B"}, "v": "remote"})
		} else {
			newDoc.UpdateBody(Body{}) // a tombstone arrives with an empty body
		}
		_, _, err := w.v.coll.PutExistingRevWithConflictResolution(w.v.ctx, PutDocOptions{
			NewDoc:                         newDoc,
			RevTreeHistory:                 []string{"2-bbb", rev1},
			ForceAllowConflictingTombstone: deleted,
			DocUpdateEvent:                 ExistingVersionWithUpdateToHLV,
			ConflictResolver:               NewConflictResolver(resolver, nil),
			NoConflicts:                    true,
		})
		return err
	}
}

// c11PullVV is the same through the version-vector protocol: the incoming vector knows the document's first version
// only (conflict) or also its second (no conflict)
func c11PullVV(id string, deleted, conflict bool, resolver ConflictResolverFunc) func(w *c11World) error {
	return func(w *c11World) error {
		rev1, ver1 := w.revDc1, w.verDc1
		if id == "dct" {
			rev1, ver1 = w.revDct1, w.verDct1
		}
		cur, err := w.v.coll.GetDocument(w.v.ctx, id, DocUnmarshalSync)
		if err != nil {
			return err
		}
		pv := HLVVersions{w.v.db.EncodedSourceID: ver1}
		history := []string{"2-bbb", rev1}
		if !conflict {
			pv[w.v.db.EncodedSourceID] = cur.HLV.Version
			history = []string{"3-bbb", cur.GetRevTreeID(), rev1}
		}
		newDoc := &Document{ID: id, Deleted: deleted, RevID: history[0]}
		if !deleted {
			newDoc.UpdateBody(Body{"channels": []string{"A", "B"}, "v": "remote"})
		} else {
			newDoc.UpdateBody(Body{}) // a tombstone arrives with an empty body
		}
		incoming := &HybridLogicalVector{SourceID: "cmVtb3Rl", Version: cur.HLV.Version + 1000, PreviousVersions: pv}
		newDoc.HLV = incoming
		_, _, _, err = w.v.coll.PutExistingCurrentVersion(w.v.ctx, PutDocOptions{
			NewDoc:                         newDoc,
			RevTreeHistory:                 history,
			ForceAllowConflictingTombstone: deleted,
			NewDocHLV:                      incoming,
			ConflictResolver:               NewConflictResolver(resolver, nil),
			ISGRWrite:                      true,
		})
		return err
	}
}

// c11PullVVLegacy: a version-vector revision from another Sync Gateway arrives for a document that has no vector yet; its
// revision-tree history continues the local current revision, or branches off the first one (conflict, resolved by the
// default resolver against a vector made up from the local revision id)
func c11PullVVLegacy(conflict bool) func(w *c11World) error {
	return func(w *c11World) error {
		history := []string{"3-bbb", w.revDl2, w.revDl1}
		if conflict {
			history = []string{"2-bbb", w.revDl1}
		}
		newDoc := &Document{ID: "dl", RevID: history[0]}
		newDoc.UpdateBody(Body{"channels": []string{"A", "B"}, "v": "remote"})
		incoming := &HybridLogicalVector{SourceID: "cmVtb3Rl", Version: uint64(time.Now().UnixNano()), PreviousVersions: HLVVersions{}}
		newDoc.HLV = incoming
		_, _, _, err := w.v.coll.PutExistingCurrentVersion(w.v.ctx, PutDocOptions{
			NewDoc:           newDoc,
			RevTreeHistory:   history,
			NewDocHLV:        incoming,
			ConflictResolver: NewConflictResolver(DefaultLWWConflictResolutionType, nil),
			ISGRWrite:        true,
		})
		return err
	}
}

// c11ClientPushVV is a revision pushed by a Couchbase Lite style client under the version-vector protocol (not a Sync
// Gateway peer: no conflict resolver, the server generates the revision-tree id): its vector knows the current local
// version (accepted) or only the first one (conflict: refused)
func c11ClientPushVV(id string, deleted, conflict, withRevTreeHistory bool) func(w *c11World) error {
	return func(w *c11World) error {
		ver1 := w.verDc1
		if id == "dct" {
			ver1 = w.verDct1
		}
		cur, err := w.v.coll.GetDocument(w.v.ctx, id, DocUnmarshalSync)
		if err != nil {
			return err
		}
		pv := HLVVersions{w.v.db.EncodedSourceID: cur.HLV.Version}
		if conflict {
			pv[w.v.db.EncodedSourceID] = ver1
		}
		newDoc := &Document{ID: id, Deleted: deleted}
		if !deleted {
			newDoc.UpdateBody(Body{"channels": []string{"A", "B"}, "v": "client"})
		} else {
			newDoc.UpdateBody(Body{})
		}
		incoming := &HybridLogicalVector{SourceID: "Y2xpZW50", Version: cur.HLV.Version + 1000, PreviousVersions: pv}
		newDoc.HLV = incoming
		opts := PutDocOptions{NewDoc: newDoc, NewDocHLV: incoming}
		if withRevTreeHistory {
			opts.RevTreeHistory = []string{cur.GetRevTreeID()}
		}
		_, _, _, err = w.v.coll.PutExistingCurrentVersion(w.v.ctx, opts)
		return err
	}
}

// c11PullVVOtherTree: the incoming vector dominates the local one (the sender has seen the local version) but the
// revision-tree history sent along does not contain the local current revision - under the version-vector protocol
// the two peers may know one version under different revision-tree ids
func c11PullVVOtherTree(id string) func(w *c11World) error {
	return func(w *c11World) error {
		cur, err := w.v.coll.GetDocument(w.v.ctx, id, DocUnmarshalSync)
		if err != nil {
			return err
		}
		history := []string{"3-bbb", "2-bbb", w.revDc1}
		newDoc := &Document{ID: id, RevID: history[0]}
		newDoc.UpdateBody(Body{"channels": []string{"A", "B"}, "v": "remote"})
		incoming := &HybridLogicalVector{SourceID: "cmVtb3Rl", Version: cur.HLV.Version + 1000, PreviousVersions: HLVVersions{w.v.db.EncodedSourceID: cur.HLV.Version}}
		newDoc.HLV = incoming
		_, _, _, err = w.v.coll.PutExistingCurrentVersion(w.v.ctx, PutDocOptions{
			NewDoc:           newDoc,
			RevTreeHistory:   history,
			NewDocHLV:        incoming,
			ConflictResolver: NewConflictResolver(DefaultLWWConflictResolutionType, nil),
			ISGRWrite:        true,
		})
		return err
	}
}

// snapshot of observable state, read with the hooks off. Sequence numbers, CAS values and timestamps are left out.
func c11Snapshot(w *c11World) string {
	v := w.v
	ctx := v.ctx
	was := v.vb.H.Enabled
	v.vb.H.Enabled = false
	defer func() { v.vb.H.Enabled = was }()
	out := map[string]any{}
	for _, id := range []string{"d1", "datt", "g1", "n1", "n2", "n3", "ext1", "dc", "dct", "dl"} {
		raw, xattrs, cas, err := v.coll.dataStore.GetWithXattrs(ctx, id, []string{base.SyncXattrName, base.VvXattrName, base.GlobalXattrName})
		if err != nil && len(xattrs) == 0 && raw == nil {
			out["doc:"+id] = "missing"
			continue
		}
		if len(xattrs[base.SyncXattrName]) == 0 {
			out["doc:"+id] = map[string]any{"unimported_body": string(raw)}
			continue
		}
		doc, err := unmarshalDocumentWithXattrs(ctx, id, raw, xattrs[base.SyncXattrName], xattrs[base.VvXattrName], nil, nil, nil, xattrs[base.GlobalXattrName], cas, DocUnmarshalAll)
		if err != nil {
			out["doc:"+id] = "unreadable: " + err.Error()
			continue
		}
		d := map[string]any{"current": doc.GetRevTreeID(), "deleted": doc.IsDeleted(), "body": string(raw)}
		var revs []string
		for id, ri := range doc.History {
			var chs []string
			for c := range ri.Channels {
				chs = append(chs, c)
			}
			sort.Strings(chs)
			revs = append(revs, fmt.Sprintf("%s<-%s del=%v ch=%v", id, ri.Parent, ri.Deleted, chs))
		}
		sort.Strings(revs)
		d["revs"] = revs
		var chs []string
		for name, rem := range doc.Channels {
			if rem == nil {
				chs = append(chs, name)
			} else {
				chs = append(chs, name+"(removed@"+rem.Rev.RevTreeID+")")
			}
		}
		sort.Strings(chs)
		d["channels"] = chs
		acc := map[string][]string{}
		for who, set := range doc.Access {
			for c := range set {
				acc[who] = append(acc[who], c)
			}
			sort.Strings(acc[who])
		}
		d["access"] = acc
		racc := map[string][]string{}
		for who, set := range doc.RoleAccess {
			for c := range set {
				racc[who] = append(racc[who], c)
			}
			sort.Strings(racc[who])
		}
		d["role_access"] = racc
		atts := map[string]string{}
		for name, meta := range doc.Attachments() {
			m, _ := meta.(map[string]any)
			digest, _ := m["digest"].(string)
			ver, _ := base.ToInt64(m["ver"])
			key := MakeAttachmentKey(int(ver), id, digest)
			data, err := v.coll.GetAttachment(ctx, key)
			if err != nil {
				atts[name] = digest + " DATA-MISSING"
			} else {
				atts[name] = fmt.Sprintf("%s len=%d", digest, len(data))
			}
		}
		d["attachments"] = atts
		if doc.HLV != nil {
			// version values are clock readings: only which sources the vector names, and where, is compared
			var pvs, mvs []string
			for src := range doc.HLV.PreviousVersions {
				pvs = append(pvs, src)
			}
			for src := range doc.HLV.MergeVersions {
				mvs = append(mvs, src)
			}
			sort.Strings(pvs)
			sort.Strings(mvs)
			d["hlv"] = map[string]any{"cv_source": doc.HLV.SourceID, "pv_sources": pvs, "mv_sources": mvs}
		}
		out["doc:"+id] = d
	}
	a := v.db.Authenticator(ctx)
	for _, name := range []string{"alice", "bob", "carol"} {
		u, err := a.GetUser(name)
		if err != nil {
			out["user:"+name] = "error: " + err.Error()
			continue
		}
		if u == nil {
			out["user:"+name] = "missing"
			continue
		}
		sc, col := base.DefaultScope, base.DefaultCollection
		if v.coll.ScopeName != "" {
			sc, col = v.coll.ScopeName, v.coll.Name
		}
		effSet, effErr := u.InheritedCollectionChannels(sc, col)
		if effErr != nil {
			out["user:"+name] = "error computing channels: " + effErr.Error()
			continue
		}
		eff := effSet.AllKeys()
		sort.Strings(eff)
		roles := u.RoleNames().AllKeys()
		sort.Strings(roles)
		exr := u.ExplicitRoles().AllKeys()
		sort.Strings(exr)
		out["user:"+name] = map[string]any{"disabled": u.Disabled(), "effective_channels": eff, "roles": roles, "explicit_roles": exr, "email": u.Email()}
	}
	for _, email := range []string{"alice@new.example.org", "bob@new.example.org"} {
		u, err := a.GetUserByEmail(email)
		switch {
		case err != nil:
			out["email:"+email] = "error: " + err.Error()
		case u == nil:
			out["email:"+email] = "unregistered"
		default:
			out["email:"+email] = "registered to " + u.Name()
		}
	}
	for _, name := range []string{"r1", "r2"} {
		r, err := a.GetRole(name)
		if err != nil {
			out["role:"+name] = "error: " + err.Error()
			continue
		}
		if r == nil {
			out["role:"+name] = "missing"
			continue
		}
		out["role:"+name] = "present"
	}
	for label, id := range map[string]string{"s1": w.session, "s2": w.session2, "s3-one-time": w.session3} {
		if id == "" {
			out["session:"+label] = "none"
			continue
		}
		s, _, err := a.GetSession(id)
		out["session:"+label] = s != nil && err == nil
	}
	b, _ := json.Marshal(out)
	// Revision digests are not compared: a tombstone written on a CAS retry gets a different digest than one written
	// first time (Put removes _deleted from the body after computing the first id). Generations, parents and
	// flags are compared.
	return c11RevDigest.ReplaceAllString(string(b), "$1-#")
}

var c11RevDigest = regexp.MustCompile(`\b([0-9]+)-[0-9a-f]{32}\b`)

func (w *c11World) principalSeqs(into map[uint64]string) {
	a := w.v.db.Authenticator(w.v.ctx)
	was := w.v.vb.H.Enabled
	w.v.vb.H.Enabled = false
	defer func() { w.v.vb.H.Enabled = was }()
	for _, n := range []string{"alice", "bob", "carol"} {
		if u, _ := a.GetUser(n); u != nil {
			into[u.Sequence()] = "carried by user " + n
		}
	}
	for _, n := range []string{"r1", "r2"} {
		if r, _ := a.GetRoleIncDeleted(n); r != nil {
			into[r.Sequence()] = "carried by role " + n
		}
	}
}

type c11Fault struct {
	Idx  int    `json:"idx"`
	Mode string `json:"mode"`
	// identity form (used to re-run one fault of a pair on its own): the nth operation of this kind on this key
	Kind string `json:"kind,omitempty"`
	Key  string `json:"key,omitempty"`
	Nth  int    `json:"nth,omitempty"`
}

type c11Case struct {
	Op     string     `json:"op"`
	Faults []c11Fault `json:"faults"`
}

var c11HasCas = map[string]bool{"WriteCas": true, "Remove": true, "WriteWithXattrs": true, "WriteTombstoneWithXattrs": true,
	"Update.write": true, "WriteUpdateWithXattrs.write": true, "UpdateXattrs": true, "SubdocInsert": true, "WriteSubDoc": true, "RemoveXattrs": true}

var c11Modes = map[string]vstore.Injection{"error": vstore.ErrBefore, "cas": vstore.CasMismatch, "timeout-not-applied": vstore.TimeoutBefore, "timeout-applied": vstore.TimeoutAfter}

var c11T testing.TB // set by the test so that the check can re-run single faults

type c11Run struct {
	err      error
	before   string
	after    string
	log      []vstore.OpRecord
	acctViol map[string]string
}

func c11Execute(t testing.TB, op c11Op, faults []c11Fault) c11Run {
	w := c11Setup(t)
	defer w.v.close()
	H := w.v.vb.H
	carried := map[uint64]string{}
	w.principalSeqs(carried)
	run := c11Run{before: c11Snapshot(w)}
	gid := vsched.GoID()
	startIdx := len(H.Snapshot())
	opSeq := 0
	occ := map[string]int{}
	H.Select = func(o, k string) bool { return true }
	H.Plan = func(seq int, o, key string, write bool) vstore.Injection {
		if vsched.GoID() != gid {
			return vstore.None // background goroutines (mutation feed) are never faulted
		}
		i := opSeq
		opSeq++
		occ[o+"|"+key]++
		for _, f := range faults {
			if f.Kind != "" {
				if f.Kind == o && f.Key == key && f.Nth == occ[o+"|"+key] {
					return c11Modes[f.Mode]
				}
				continue
			}
			if f.Idx == i {
				return c11Modes[f.Mode]
			}
		}
		return vstore.None
	}
	run.err = op.Run(w)
	H.Plan = nil
	w.v.waitFeed()
	for _, rec := range H.Snapshot()[startIdx:] {
		if rec.Gid == gid {
			run.log = append(run.log, rec)
		}
	}
	run.after = c11Snapshot(w)
	w.principalSeqs(carried)
	run.acctViol = map[string]string{}
	w.v.accountSequences(run.acctViol, "C11/sequences", op.Name, []string{"d1", "datt", "g1", "n1", "n2", "n3", "ext1", "dc", "dct", "dl"}, carried)
	return run
}

func c11IsTimeout(err error) bool {
	return err != nil && (base.IsTimeoutError(err) || errors.Is(err, base.ErrTimeout) || strings.Contains(err.Error(), "injected timeout"))
}

func c11Check(r *vreport.Report, op c11Op, ff c11Run, c c11Case, run c11Run) {
	// the operations that were actually faulted in this run (an earlier fault can change which operations follow)
	modes := []string{}
	kinds := []string{}
	var actual []c11Fault
	occ := map[string]int{}
	for _, rec := range run.log {
		occ[rec.Op+"|"+rec.Key]++
		if rec.Inject != "" {
			kinds = append(kinds, rec.Op)
			modes = append(modes, rec.Inject)
			mode := rec.Inject
			if mode == "cas-mismatch" {
				mode = "cas"
			}
			actual = append(actual, c11Fault{Mode: mode, Kind: rec.Op, Key: rec.Key, Nth: occ[rec.Op+"|"+rec.Key]})
		}
	}
	for i := range modes {
		if modes[i] == "cas-mismatch" {
			modes[i] = "cas"
		}
	}
	if len(kinds) == 0 {
		for _, f := range c.Faults {
			modes = append(modes, f.Mode)
			if f.Idx < len(ff.log) {
				kinds = append(kinds, ff.log[f.Idx].Op)
			}
		}
	}
	site := fmt.Sprintf("%s/at=%s/mode=%s", op.Name, strings.Join(kinds, "+"), strings.Join(modes, "+"))
	// a violation under two faults is reported under one of them if that fault alone already produces a violation of
	// the same kind (the other fault then adds nothing)
	subsumed := func(class string) string {
		if len(actual) < 2 || c11T == nil {
			return site
		}
		var candidates []c11Fault
		for _, f := range actual {
			candidates = append(candidates, f)
			if f.Nth > 1 {
				// the nth attempt of a retried write only exists because of the other fault: on its own it is the first
				g := f
				g.Nth = 1
				candidates = append(candidates, g)
			}
		}
		for _, f := range candidates {
			single := c11Execute(c11T, op, []c11Fault{f})
			sOutcome := "error"
			sTimeout := false
			for _, rec := range single.log {
				if strings.HasPrefix(rec.Inject, "timeout") {
					sTimeout = true
				}
			}
			switch {
			case single.err == nil:
				sOutcome = "success"
			case c11IsTimeout(single.err) || sTimeout:
				sOutcome = "timeout"
			}
			same := false
			switch class {
			case "success-but-state-differs":
				same = sOutcome == "success" && single.after != ff.after
			case "timeout-state-neither-before-nor-after":
				same = sOutcome == "timeout" && single.after != single.before && single.after != ff.after
			case "error-but-state-changed":
				same = sOutcome == "error" && single.after != single.before
			}
			if same {
				return fmt.Sprintf("%s/at=%s/mode=%s", op.Name, f.Kind, f.Mode)
			}
		}
		return site
	}
	desc := fmt.Sprintf("operation %s with fault(s) %+v (fault-free storage trace: %s)", op.Name, c.Faults, c11TraceString(ff.log))
	outcome := "error"
	injectedTimeout := false
	releaseFaulted := false
	for _, rec := range run.log {
		if strings.HasPrefix(rec.Inject, "timeout") {
			injectedTimeout = true // the storage layer reported an unknown outcome somewhere in this request
		}
		if rec.Inject != "" && rec.Op == "AddRaw" && strings.Contains(rec.Key, "unusedSeq") {
			releaseFaulted = true // the fault hit the very write that gives a sequence back: it cannot be given back
		}
	}
	if releaseFaulted {
		run.acctViol = nil
	}
	switch {
	case run.err == nil:
		outcome = "success"
	case c11IsTimeout(run.err) || injectedTimeout:
		outcome = "timeout"
	}
	r.Distinct("outcomes", op.Name+"/"+outcome+"/"+strings.Join(modes, "+"))
	switch outcome {
	case "success":
		if run.after != ff.after {
			r.Violate("C11/success-but-state-differs/"+subsumed("success-but-state-differs"), fmt.Sprintf("%s reported success, but the state read back differs from the fault-free result.\n got: %s\nwant: %s", desc, c11Diff(run.after, ff.after), c11Diff(ff.after, run.after)), c)
		}
	case "error":
		if run.after != run.before {
			r.Violate("C11/error-but-state-changed/"+subsumed("error-but-state-changed"), fmt.Sprintf("%s returned error %v, but observable state changed.\n after: %s\nbefore: %s", desc, run.err, c11Diff(run.after, run.before), c11Diff(run.before, run.after)), c)
		}
		for fp, d := range run.acctViol {
			r.Violate(fp+"/"+site, fmt.Sprintf("%s returned error %v: %s", desc, run.err, d), c)
		}
	case "timeout":
		if run.after != run.before && run.after != ff.after {
			r.Violate("C11/timeout-state-neither-before-nor-after/"+subsumed("timeout-state-neither-before-nor-after"), fmt.Sprintf("%s timed out and left a state that is neither the previous nor the new one: %s", desc, c11Diff(run.after, run.before)), c)
		}
	}
	if outcome == "success" && !injectedTimeout {
		for fp, d := range run.acctViol {
			r.Violate(fp+"/"+site, fmt.Sprintf("%s succeeded: %s", desc, d), c)
		}
	}
}

func c11TraceString(log []vstore.OpRecord) string {
	var p []string
	for i, rec := range log {
		p = append(p, fmt.Sprintf("%d:%s(%s)", i, rec.Op, rec.Key))
	}
	return strings.Join(p, " ")
}

// c11Diff lists the top-level entries of a that differ from b.
func c11Diff(a, b string) string {
	var ma, mb map[string]json.RawMessage
	_ = json.Unmarshal([]byte(a), &ma)
	_ = json.Unmarshal([]byte(b), &mb)
	var out []string
	for k, v := range ma {
		if string(mb[k]) != string(v) {
			out = append(out, k+"="+string(v))
		}
	}
	sort.Strings(out)
	return strings.Join(out, "; ")
}

// c11FaultFree judges the fault-free run of an operation
func c11FaultFree(r *vreport.Report, op c11Op, x c11Run) {
	if op.Reject && x.err == nil {
		r.Violate("C11/faultfree/rejection-not-rejected/"+op.Name, "the fault-free run of a request that must be rejected succeeded", c11Case{Op: op.Name})
	}
	if !op.Reject && x.err != nil {
		r.Violate("C11/faultfree/unexpected-error/"+op.Name, fmt.Sprintf("fault-free run failed: %v", x.err), c11Case{Op: op.Name})
	}
	if x.err != nil && x.after != x.before {
		r.Violate("C11/error-but-state-changed/"+op.Name+"/faultfree", fmt.Sprintf("rejected request changed observable state: %s", c11Diff(x.after, x.before)), c11Case{Op: op.Name})
	}
	if x.err == nil && x.after == x.before && !strings.HasPrefix(op.Name, "session") {
		r.Add("faultfree_noop_operations", 1)
	}
	for fp, d := range x.acctViol {
		r.Violate(fp+"/"+op.Name+"/faultfree", d, c11Case{Op: op.Name})
	}
	if d := c11StateInvariant(x.after); d != "" {
		r.Violate("C11/state/channels-do-not-match-the-current-body/"+op.Name+"/faultfree", d, c11Case{Op: op.Name})
	}
}

// c11StateInvariant: a write is applied as a whole, so in every state the channel assignment of a live document is the
// one the sync function (channel(doc.channels)) computes for the body that is current
func c11StateInvariant(snapshot string) string {
	var m map[string]json.RawMessage
	if json.Unmarshal([]byte(snapshot), &m) != nil {
		return ""
	}
	for k, v := range m {
		if !strings.HasPrefix(k, "doc:") {
			continue
		}
		var d struct {
			Body     string   `json:"body"`
			Deleted  bool     `json:"deleted"`
			Channels []string `json:"channels"`
		}
		if json.Unmarshal(v, &d) != nil || d.Deleted || d.Body == "" {
			continue
		}
		var body struct {
			Channels []string `json:"channels"`
		}
		if json.Unmarshal([]byte(d.Body), &body) != nil {
			continue
		}
		var have []string
		for _, c := range d.Channels {
			if !strings.Contains(c, "(removed@") {
				have = append(have, c)
			}
		}
		want := append([]string{}, body.Channels...)
		sort.Strings(want)
		sort.Strings(have)
		if strings.Join(want, ",") != strings.Join(have, ",") {
			return fmt.Sprintf("%s: the current body assigns channels %v, the document is in channels %v (%s)", k, want, have, string(v))
		}
	}
	return ""
}

var _ = channels.Conflict
var _ context.Context

func TestVerifC11(t *testing.T) {
	r := vreport.Begin("C11")
	defer r.Finish(t)
	r.Rule("for each of the operation kinds, the fault-free storage trace T of the request is recorded; then for every index i of T (thorough: also every pair i<j) and every failure mode applicable to that storage operation {error not applied, CAS mismatch, timeout not applied, timeout applied} the request is re-run on a fresh identically prepared database with the fault(s) injected; a violation under two faults is reported under one of them when that fault alone (re-run by identity: the nth operation of its kind on its key) already produces a violation of the same kind; non-trivial = distinct (operation, fault set)")
	r.Assume("only storage operations issued by the requesting goroutine are faulted (the mutation feed is left alone); orphaned content-addressed blobs, revision-body backups and unused-sequence documents are not observable state; sequence numbers are compared through the accounting oracle, not by value")
	c11T = t
	oldFreq := MaxSequenceIncrFrequency
	defer func() { MaxSequenceIncrFrequency = oldFreq }()
	ops := c11Ops()
	byName := map[string]c11Op{}
	for _, o := range ops {
		byName[o.Name] = o
	}
	var rc c11Case
	if r.Replaying(&rc) {
		op := byName[rc.Op]
		ff := c11Execute(t, op, nil)
		if len(rc.Faults) == 0 {
			c11FaultFree(r, op, ff)
			r.Add("evaluations", 1)
			return
		}
		run := c11Execute(t, op, rc.Faults)
		c11Check(r, op, ff, rc, run)
		fmt.Printf("REPLAY-TRACE %s err=%v\n  fault-free: %s\n  this run:   %s\n", rc.Op, run.err, c11TraceString(ff.log), c11TraceString(run.log))
		r.Add("evaluations", 1)
		return
	}
	caseIdx := 0
	for _, op := range ops {
		// every shard needs the fault-free trace of the operations it works on; compute lazily
		var ff *c11Run
		getFF := func() c11Run {
			if ff == nil {
				x := c11Execute(t, op, nil)
				ff = &x
				c11FaultFree(r, op, x)
			}
			return *ff
		}
		// we need the trace length to enumerate: shard 0 of this op computes it; to stay deterministic every shard
		// computes the fault-free run of an operation only if it owns at least one of its cases. Case ownership
		// therefore uses a fixed upper bound on the trace length.
		const maxTrace = 40
		var cases []c11Case
		for i := 0; i < maxTrace; i++ {
			for _, m := range []string{"error", "cas", "timeout-not-applied", "timeout-applied"} {
				cases = append(cases, c11Case{Op: op.Name, Faults: []c11Fault{{Idx: i, Mode: m}}})
			}
		}
		if r.Thorough() {
			for i := 0; i < maxTrace; i++ {
				for j := i + 1; j < maxTrace; j++ {
					for _, m1 := range []string{"error", "cas"} {
						for _, m2 := range []string{"error", "cas", "timeout-applied"} {
							cases = append(cases, c11Case{Op: op.Name, Faults: []c11Fault{{Idx: i, Mode: m1}, {Idx: j, Mode: m2}}})
						}
					}
				}
			}
		}
		for _, c := range cases {
			caseIdx++
			if !r.Mine(caseIdx) {
				continue
			}
			if r.Expired() {
				r.Cap("time budget reached")
				break
			}
			f := getFF()
			n := len(f.log)
			skip := false
			for fi, flt := range c.Faults {
				if flt.Idx >= n {
					skip = true
					break
				}
				rec := f.log[flt.Idx]
				if !rec.Write && (flt.Mode == "cas" || flt.Mode == "timeout-applied") {
					skip = true // not applicable to reads
				}
				if flt.Mode == "cas" && !c11HasCas[rec.Op] {
					skip = true // the operation carries no compare-and-swap value
				}
				if fi > 0 && c.Faults[0].Mode == "error" {
					// after a hard error on operation i the request normally ends; a later index may not exist in this run: still run it
				}
			}
			if skip {
				continue
			}
			run := c11Execute(t, op, c.Faults)
			c11Check(r, op, f, c, run)
			r.Add("evaluations", 1)
			r.Add("distinct_nontrivial", 1)
			r.Add("injections_"+c.Faults[0].Mode, 1)
			if caseIdx%37 == 0 {
				r.Sample(map[string]any{"case": c, "result": fmt.Sprint(run.err), "trace": c11TraceString(f.log)})
			}
		}
		if ff != nil {
			r.Max("storage_ops_in_longest_trace", int64(len(ff.log)))
		}
	}
}
