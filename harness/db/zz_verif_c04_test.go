//go:build verif

package db

import (
	"bytes"
	"context"
	"fmt"
	"sort"
	"strings"
	"testing"

	"github.com/couchbase/sync_gateway/base"
	"github.com/couchbase/sync_gateway/channels"
	"github.com/couchbase/sync_gateway/verifshim/vreport"
)

// C04 — revision trees stay well-formed with a deterministic, order-independent winner.
// (a) every set of up to K pushed revisions (with ancestry, tombstones, equal-generation siblings) in every
//     insertion order, with conflicts allowed and disallowed, on a real database;
// (b) every tree of up to N nodes through the compact encoding;
// (c) every such tree through pruning at every depth.

type c04Push struct {
	Rev     string `json:"rev"`
	Deleted bool   `json:"deleted,omitempty"`
}

var c04Parent = map[string]string{"1-a": "", "2-a": "1-a", "2-b": "1-a", "3-a": "2-a", "3-b": "2-b", "3-c": "2-a", "4-a": "3-a"}

func c04History(rev string) []string {
	var h []string
	for r := rev; r != ""; r = c04Parent[r] {
		h = append(h, r)
	}
	return h
}

func c04Gen(rev string) int {
	g, _ := ParseRevID(context.Background(), rev)
	return g
}

// model winner: leaf maximising (not deleted, generation, digest)
func c04ModelWinner(tree RevTree) (winner string, leaves []string, activeLeaves int) {
	isParent := map[string]bool{}
	for _, ri := range tree {
		if ri.Parent != "" {
			isParent[ri.Parent] = true
		}
	}
	for id := range tree {
		if !isParent[id] {
			leaves = append(leaves, id)
		}
	}
	sort.Strings(leaves)
	better := func(a, b string) bool { // a better than b
		da, db := tree[a].Deleted, tree[b].Deleted
		if da != db {
			return !da
		}
		ga, gb := c04Gen(a), c04Gen(b)
		if ga != gb {
			return ga > gb
		}
		return a[strings.Index(a, "-")+1:] > b[strings.Index(b, "-")+1:]
	}
	for _, l := range leaves {
		if !tree[l].Deleted {
			activeLeaves++
		}
		if winner == "" || better(l, winner) {
			winner = l
		}
	}
	return
}

func c04TreeString(tree RevTree) string {
	var p []string
	for id, ri := range tree {
		d := ""
		if ri.Deleted {
			d = "(del)"
		}
		p = append(p, id+d+"<-"+ri.Parent)
	}
	sort.Strings(p)
	return "[" + strings.Join(p, " ") + "]"
}

// well-formedness of a tree + flags of the document
func c04CheckTree(tree RevTree) string {
	for id, ri := range tree {
		if ri.ID != id {
			return fmt.Sprintf("entry %s has ID %s", id, ri.ID)
		}
		if ri.Parent != "" {
			if _, ok := tree[ri.Parent]; !ok {
				return fmt.Sprintf("revision %s has a dangling parent %s", id, ri.Parent)
			}
			if c04Gen(id) <= c04Gen(ri.Parent) {
				return fmt.Sprintf("revision %s is not a higher generation than its parent %s", id, ri.Parent)
			}
		}
	}
	if tree.ContainsCycles() {
		return "tree contains a cycle"
	}
	return ""
}

type c04Case struct {
	Kind      string    `json:"kind"`
	Pushes    []c04Push `json:"pushes,omitempty"`
	Conflicts bool      `json:"conflicts,omitempty"`
	Parents   []int     `json:"parents,omitempty"`
	Deleted   int       `json:"deleted,omitempty"`
	Depth     uint32    `json:"depth,omitempty"`
}

type c04Env struct {
	db   map[bool]*Database
	coll map[bool]*DatabaseCollectionWithUser
	ctx  map[bool]context.Context
	n    int
}

func c04NewEnv(t testing.TB) *c04Env {
	e := &c04Env{db: map[bool]*Database{}, coll: map[bool]*DatabaseCollectionWithUser{}, ctx: map[bool]context.Context{}}
	for _, c := range []bool{false, true} {
		db, ctx := SetupTestDBWithOptions(t, DatabaseContextOptions{AllowConflicts: base.Ptr(c), CacheOptions: base.Ptr(DefaultCacheOptions())})
		coll, ctx := GetSingleDatabaseCollectionWithUser(ctx, t, db)
		e.db[c], e.coll[c], e.ctx[c] = db, coll, ctx
	}
	return e
}

func (e *c04Env) close() {
	for c, db := range e.db {
		db.Close(e.ctx[c])
	}
}

type c04Final struct {
	accepted string
	leaves   string
	winner   string
	body     string
}

// runs one insertion order; returns the final summary and reports violations
func (e *c04Env) runOrder(r *vreport.Report, conflicts bool, order []c04Push, rep c04Case) (fin c04Final, ok bool) {
	e.n++
	docID := fmt.Sprintf("doc-%v-%d", conflicts, e.n)
	coll, ctx := e.coll[conflicts], e.ctx[conflicts]
	mode := fmt.Sprintf("conflicts=%v", conflicts)
	var accepted []string
	desc := func() string { return fmt.Sprintf("order %+v (%s)", order, mode) }
	for _, p := range order {
		before, _ := coll.GetDocument(ctx, docID, DocUnmarshalAll)
		body := Body{"rev": p.Rev}
		if p.Deleted {
			body[BodyDeleted] = true
		}
		doc, _, err := coll.PutExistingRevWithBody(ctx, docID, body, c04History(p.Rev), !conflicts, ExistingVersionWithUpdateToHLV)
		after, gerr := coll.GetDocument(ctx, docID, DocUnmarshalAll)
		if err != nil {
			// rejected: must leave no trace
			switch {
			case before == nil && after != nil:
				r.Violate("C04/rejected-write-left-a-trace/"+mode, fmt.Sprintf("push of %+v rejected (%v) but the document now exists: %s; %s", p, err, c04TreeString(after.History), desc()), rep)
			case before != nil && after != nil && c04TreeString(before.History) != c04TreeString(after.History):
				r.Violate("C04/rejected-write-left-a-trace/"+mode, fmt.Sprintf("push of %+v rejected (%v) but history changed %s -> %s; %s", p, err, c04TreeString(before.History), c04TreeString(after.History), desc()), rep)
			}
			if conflicts {
				r.Violate("C04/legal-write-rejected/"+mode, fmt.Sprintf("push of %+v with history %v rejected although conflicts are allowed: %v; %s", p, c04History(p.Rev), err, desc()), rep)
			}
			continue
		}
		accepted = append(accepted, fmt.Sprintf("%s:%v", p.Rev, p.Deleted))
		if gerr != nil || after == nil {
			r.Violate("C04/accepted-write-unreadable/"+mode, fmt.Sprintf("after accepted push of %+v the document cannot be read: %v; %s", p, gerr, desc()), rep)
			return fin, false
		}
		tree := after.History
		if msg := c04CheckTree(tree); msg != "" {
			r.Violate("C04/tree-malformed/"+mode, msg+": "+c04TreeString(tree)+"; "+desc(), rep)
			return fin, false
		}
		if _, ok := tree[p.Rev]; !ok {
			r.Violate("C04/accepted-revision-missing/"+mode, fmt.Sprintf("accepted %+v is not in %s; %s", p, c04TreeString(tree), desc()), rep)
		}
		winner, leaves, active := c04ModelWinner(tree)
		if after.GetRevTreeID() != winner {
			r.Violate("C04/wrong-winner/"+mode, fmt.Sprintf("current revision is %s, the leaf maximising (not deleted, generation, digest) is %s in %s; %s", after.GetRevTreeID(), winner, c04TreeString(tree), desc()), rep)
		}
		if after.hasFlag(channels.Deleted) != tree[winner].Deleted || after.IsDeleted() != tree[winner].Deleted {
			r.Violate("C04/deleted-flag-wrong/"+mode, fmt.Sprintf("deleted flag %v but winner %s deleted=%v in %s; %s", after.hasFlag(channels.Deleted), winner, tree[winner].Deleted, c04TreeString(tree), desc()), rep)
		}
		if after.hasFlag(channels.Conflict) != (active > 1) {
			r.Violate("C04/conflict-flag-wrong/"+mode, fmt.Sprintf("conflict flag %v with %d active leaves in %s; %s", after.hasFlag(channels.Conflict), active, c04TreeString(tree), desc()), rep)
		}
		if after.hasFlag(channels.Branched) != (len(leaves) > 1) {
			r.Violate("C04/branched-flag-wrong/"+mode, fmt.Sprintf("branched flag %v with leaves %v in %s; %s", after.hasFlag(channels.Branched), leaves, c04TreeString(tree), desc()), rep)
		}
		// store and reload preserves the tree: the document returned by the write vs the one read back
		if doc != nil && c04TreeString(doc.History) != c04TreeString(tree) {
			r.Violate("C04/reload-differs/"+mode, fmt.Sprintf("tree in memory after the write %s, after reload %s; %s", c04TreeString(doc.History), c04TreeString(tree), desc()), rep)
		}
		fin.leaves = strings.Join(leaves, ",")
		fin.winner = winner
		bodyBytes, _ := after.BodyBytes(ctx)
		fin.body = string(bodyBytes)
		if !tree[winner].Deleted && !strings.Contains(fin.body, `"`+winner+`"`) {
			r.Violate("C04/winning-body-wrong/"+mode, fmt.Sprintf("winner %s but the document body is %s; %s", winner, fin.body, desc()), rep)
		}
	}
	sort.Strings(accepted)
	fin.accepted = strings.Join(accepted, ",")
	return fin, true
}

func c04Permutations(n int, f func([]int)) {
	p := make([]int, n)
	for i := range p {
		p[i] = i
	}
	var rec func(k int)
	rec = func(k int) {
		if k == n {
			f(p)
			return
		}
		for i := k; i < n; i++ {
			p[k], p[i] = p[i], p[k]
			rec(k + 1)
			p[k], p[i] = p[i], p[k]
		}
	}
	rec(0)
}

func (e *c04Env) runSet(r *vreport.Report, set []c04Push, conflicts bool) {
	rep := c04Case{Kind: "pushes", Pushes: set, Conflicts: conflicts}
	byAccepted := map[string]c04Final{}
	byAcceptedOrder := map[string][]c04Push{}
	c04Permutations(len(set), func(p []int) {
		order := make([]c04Push, len(set))
		for i, j := range p {
			order[i] = set[j]
		}
		fin, ok := e.runOrder(r, conflicts, order, rep)
		r.Add("insertion_orders", 1)
		r.Add("evaluations", 1)
		if !ok {
			return
		}
		r.Distinct("outcomes", fmt.Sprintf("%v|%s|%s", conflicts, fin.accepted, fin.winner))
		if prev, seen := byAccepted[fin.accepted]; seen {
			if prev.leaves != fin.leaves || prev.winner != fin.winner || prev.body != fin.body {
				r.Violate(fmt.Sprintf("C04/order-dependent-result/conflicts=%v", conflicts), fmt.Sprintf("the same accepted revisions {%s} end as leaves=%s winner=%s body=%s in order %+v but leaves=%s winner=%s body=%s in order %+v",
					fin.accepted, prev.leaves, prev.winner, prev.body, byAcceptedOrder[fin.accepted], fin.leaves, fin.winner, fin.body, order), rep)
			}
		} else {
			byAccepted[fin.accepted] = fin
			byAcceptedOrder[fin.accepted] = order
		}
	})
}

// ---- (b)/(c) tree enumeration

func c04BuildTree(parents []int, deletedMask int) RevTree {
	tree := RevTree{}
	ids := make([]string, len(parents))
	gens := make([]int, len(parents))
	for i, p := range parents {
		if p < 0 {
			gens[i] = 1
		} else {
			gens[i] = gens[p] + 1
		}
		ids[i] = fmt.Sprintf("%d-%c", gens[i], 'a'+i)
	}
	for i, p := range parents {
		ri := &RevInfo{ID: ids[i], Deleted: deletedMask&(1<<i) != 0}
		if p >= 0 {
			ri.Parent = ids[p]
		}
		if i%2 == 1 {
			ri.Body = []byte(fmt.Sprintf(`{"n":%d}`, i))
		}
		if i%3 == 2 {
			ri.BodyKey = fmt.Sprintf("_sync:rb:key%d", i)
			ri.Body = nil
		}
		if i%2 == 0 {
			ri.HasAttachments = true
		}
		tree[ids[i]] = ri
	}
	// channels are only kept for non-winning leaves
	return tree
}

func c04EnumShapes(n int, f func(parents []int)) {
	parents := make([]int, n)
	var rec func(i int)
	rec = func(i int) {
		if i == n {
			f(parents)
			return
		}
		for p := -1; p < i; p++ {
			parents[i] = p
			rec(i + 1)
		}
	}
	rec(0)
}

func c04CheckCodec(r *vreport.Report, parents []int, mask int) {
	rep := c04Case{Kind: "codec", Parents: append([]int{}, parents...), Deleted: mask}
	tree := c04BuildTree(parents, mask)
	// leaves that are not the winner may carry channels
	winner, leaves, _ := c04ModelWinner(tree)
	for _, l := range leaves {
		if l != winner {
			tree[l].Channels = base.SetOf("C" + l)
		}
	}
	b, err := tree.MarshalJSON()
	if err != nil {
		r.Violate("C04/codec/marshal-error", err.Error(), rep)
		return
	}
	back := RevTree{}
	if err := back.UnmarshalJSON(b); err != nil {
		r.Violate("C04/codec/unmarshal-error", fmt.Sprintf("%s: %v", b, err), rep)
		return
	}
	if len(back) != len(tree) {
		r.Violate("C04/codec/size-changed", fmt.Sprintf("%s -> %s -> %s", c04TreeString(tree), b, c04TreeString(back)), rep)
		return
	}
	for id, ri := range tree {
		o, ok := back[id]
		if !ok || o.Parent != ri.Parent || o.Deleted != ri.Deleted || !bytes.Equal(o.Body, ri.Body) || o.BodyKey != ri.BodyKey || o.HasAttachments != ri.HasAttachments || !o.Channels.Equals(ri.Channels) {
			r.Violate("C04/codec/revision-changed", fmt.Sprintf("revision %s: %+v -> %+v (json %s)", id, ri, o, b), rep)
			return
		}
	}
}

func c04CheckPrune(r *vreport.Report, ctx context.Context, parents []int, mask int, depth uint32) {
	rep := c04Case{Kind: "prune", Parents: append([]int{}, parents...), Deleted: mask, Depth: depth}
	tree := c04BuildTree(parents, mask)
	_, leavesBefore, _ := c04ModelWinner(tree)
	winnerBefore, _, _ := tree.winningRevision(ctx)
	before := c04TreeString(tree)
	work := tree.copy()
	work.pruneRevisions(ctx, depth, "")
	if msg := c04CheckTree(work); msg != "" {
		r.Violate(fmt.Sprintf("C04/prune/tree-malformed"), fmt.Sprintf("prune(%d) of %s gives %s: %s", depth, before, c04TreeString(work), msg), rep)
		return
	}
	for _, l := range leavesBefore {
		if tree[l].Deleted {
			continue // old tombstoned branches may be pruned away
		}
		if _, ok := work[l]; !ok {
			r.Violate("C04/prune/live-leaf-removed", fmt.Sprintf("prune(%d) of %s removed live leaf %s: %s", depth, before, l, c04TreeString(work)), rep)
		} else if !work.isLeaf(l) {
			r.Violate("C04/prune/leaf-no-longer-leaf", fmt.Sprintf("prune(%d) of %s: %s is no longer a leaf in %s", depth, before, l, c04TreeString(work)), rep)
		}
	}
	if len(work) == 0 && len(tree) > 0 {
		r.Violate("C04/prune/everything-removed", fmt.Sprintf("prune(%d) of %s removed every revision", depth, before), rep)
		return
	}
	got, _, _ := work.winningRevision(ctx)
	want, _, _ := c04ModelWinner(work)
	if got != want {
		r.Violate("C04/prune/wrong-winner-after-prune", fmt.Sprintf("after prune(%d) of %s: winner %s, model %s in %s", depth, before, got, want, c04TreeString(work)), rep)
	}
	if !tree[winnerBefore].Deleted && got != winnerBefore {
		r.Violate("C04/prune/winner-changed", fmt.Sprintf("prune(%d) of %s changed the winner from %s to %s", depth, before, winnerBefore, got), rep)
	}
}

func TestVerifC04(t *testing.T) {
	r := vreport.Begin("C04")
	defer r.Finish(t)
	r.Rule("(a) every set of up to K pushes from {1-a, 2-a, 2-b, 3-a, 3-b, 3-c(sibling of 3-a), 4-a} x {live, tombstone}, each pushed with its full ancestry, in every insertion order, with conflicts allowed and disallowed, on a real database (fresh document per order); (b) every rooted forest of up to N nodes x every deleted mask through MarshalJSON/UnmarshalJSON; (c) the same forests through pruneRevisions at depths 1..4; non-trivial = distinct (set, mode) / tree")
	var rc c04Case
	if r.Replaying(&rc) {
		switch rc.Kind {
		case "pushes":
			e := c04NewEnv(t)
			defer e.close()
			e.runSet(r, rc.Pushes, rc.Conflicts)
		case "codec":
			c04CheckCodec(r, rc.Parents, rc.Deleted)
		case "prune":
			c04CheckPrune(r, base.TestCtx(t), rc.Parents, rc.Deleted, rc.Depth)
		}
		return
	}
	K, N := 3, 5
	if r.Thorough() {
		K, N = 4, 6
	}
	r.Note("max_pushes", K)
	r.Note("max_tree_nodes", N)
	ctx := base.TestCtx(t)
	// (b) and (c)
	idx := 0
	for n := 1; n <= N; n++ {
		c04EnumShapes(n, func(parents []int) {
			for mask := 0; mask < 1<<n; mask++ {
				idx++
				if !r.Mine(idx) {
					continue
				}
				c04CheckCodec(r, parents, mask)
				r.Add("trees_encoded", 1)
				for d := uint32(1); d <= 4; d++ {
					c04CheckPrune(r, ctx, parents, mask, d)
					r.Add("prunes", 1)
				}
				r.Add("evaluations", 5)
				r.Add("distinct_nontrivial", 1)
				if idx%4999 == 0 {
					r.Sample(map[string]any{"tree": c04TreeString(c04BuildTree(parents, mask))})
				}
			}
		})
	}
	// (a)
	revs := []string{"1-a", "2-a", "2-b", "3-a", "3-b", "3-c", "4-a"}
	var universe []c04Push
	for _, rv := range revs {
		universe = append(universe, c04Push{Rev: rv}, c04Push{Rev: rv, Deleted: true})
	}
	e := c04NewEnv(t)
	defer e.close()
	setIdx := 0
	var choose func(start int, cur []c04Push)
	choose = func(start int, cur []c04Push) {
		if len(cur) > 0 {
			for _, c := range []bool{false, true} {
				setIdx++
				if r.Mine(setIdx) && !r.Expired() {
					e.runSet(r, cur, c)
					r.Add("revision_sets", 1)
					r.Add("distinct_nontrivial", 1)
					if setIdx%211 == 0 {
						r.Sample(map[string]any{"pushes": cur, "conflicts": c})
					}
				}
			}
		}
		if len(cur) == K {
			return
		}
		for i := start; i < len(universe); i++ {
			dup := false
			for _, c := range cur {
				if c.Rev == universe[i].Rev {
					dup = true
				}
			}
			if dup {
				continue
			}
			choose(i+1, append(append([]c04Push{}, cur...), universe[i]))
		}
	}
	choose(0, nil)
	if r.Expired() {
		r.Cap("time budget reached before all revision sets were explored")
	}
}
