//go:build verif

package db

import (
	"context"
	"fmt"
	"sort"
	"strings"
	"testing"
	"time"

	"github.com/couchbase/sync_gateway/auth"
	"github.com/couchbase/sync_gateway/base"
	"github.com/couchbase/sync_gateway/verifshim/vreport"
)

// C01 (b) — database level: every write history up to depth D over two documents and two channels; after the
// history every requester x since x limit x active_only is answered by the real changes feed and compared with
// (i) the property's clauses computed from a reference model, (ii) differential twins: warm cache, cleared
// cache, a database whose per-channel caches hold one entry, the same after clearing, (iii) paging and
// resume-from-any-returned-position.

var c01bAlphabet = []string{"d1:A", "d1:B", "d1:AB", "d1:none", "d1:del", "d2:A", "d2:AB", "d2:del"}

type c01bWrite struct {
	seq     uint64
	rev     string
	chans   map[string]bool
	deleted bool
}

type c01bEnv struct {
	dbs   []*Database
	ctxs  []context.Context
	colls []*DatabaseCollectionWithUser
	n     int
}

type c01bEntry struct {
	Seq     string
	SeqNum  uint64
	ID      string
	Rev     string
	Deleted bool
	Removed string
}

func (e c01bEntry) String() string {
	s := fmt.Sprintf("%s:%s@%s", e.Seq, e.ID, e.Rev)
	if e.Deleted {
		s += "(deleted)"
	}
	if e.Removed != "" {
		s += "(removed:" + e.Removed + ")"
	}
	return s
}

var c01bUsers = map[string][]string{"uA": {"A"}, "uB": {"B"}, "uAB": {"A", "B"}, "uStar": {"*"}, "uNone": {}}

func c01bNewEnv(t testing.TB) *c01bEnv {
	e := &c01bEnv{}
	for _, co := range []CacheOptions{DefaultCacheOptions(), func() CacheOptions {
		o := DefaultCacheOptions()
		o.ChannelCacheMaxLength = 1
		o.ChannelCacheMinLength = 1
		return o
	}()} {
		co := co
		db, ctx := SetupTestDBWithOptions(t, DatabaseContextOptions{CacheOptions: &co, Scopes: GetScopesOptionsDefaultCollectionOnly(t), BcryptCost: 4, ClientPartitionWindow: base.DefaultClientPartitionWindow})
		coll, ctx := GetSingleDatabaseCollectionWithUser(ctx, t, db)
		e.dbs, e.ctxs, e.colls = append(e.dbs, db), append(e.ctxs, ctx), append(e.colls, coll)
	}
	return e
}

func (e *c01bEnv) close() {
	for i, db := range e.dbs {
		db.Close(e.ctxs[i])
	}
}

func c01bWait(db *Database, ctx context.Context) {
	last, err := db.sequences.lastSequence(ctx)
	if err != nil {
		return
	}
	deadline := time.Now().Add(20 * time.Second)
	for time.Now().Before(deadline) {
		if db.changeCache.getNextSequence() >= last+1 {
			return
		}
		time.Sleep(100 * time.Microsecond)
	}
}

type c01bCase struct {
	Hist []string `json:"hist"`
}

func (e *c01bEnv) run(t testing.TB, r *vreport.Report, hist []string) {
	e.n++
	sfx := fmt.Sprintf("_%d", e.n)
	rep := c01bCase{Hist: hist}
	// per database: apply the history, recording the model (sequence numbers differ between the two databases)
	type world struct {
		writes map[string][]c01bWrite
		start  uint64
		seqs   []uint64
	}
	worlds := make([]*world, len(e.dbs))
	for di, db := range e.dbs {
		ctx, coll := e.ctxs[di], e.colls[di]
		w := &world{writes: map[string][]c01bWrite{}}
		worlds[di] = w
		for name, chans := range c01bUsers {
			set := base.Set{}
			for _, c := range chans {
				if c == "*" {
					set.Add("*")
				} else {
					set.Add(c + sfx)
				}
			}
			if _, _, err := db.UpdatePrincipal(ctx, &auth.PrincipalConfig{Name: base.Ptr(name + sfx), Password: base.Ptr("letmein"), ExplicitChannels: set}, true, false); err != nil {
				t.Fatalf("user: %v", err)
			}
			c01bWait(db, ctx)
		}
		w.start, _ = db.sequences.lastSequence(ctx)
		for _, sym := range hist {
			parts := strings.Split(sym, ":")
			id := parts[0]
			prev := w.writes[id]
			body := Body{}
			del := parts[1] == "del"
			chans := map[string]bool{}
			if !del && parts[1] != "none" {
				var cs []string
				for _, c := range parts[1] {
					cs = append(cs, string(c)+sfx)
					chans[string(c)] = true
				}
				body["channels"] = cs
			}
			if len(prev) > 0 {
				last := prev[len(prev)-1]
				if del && last.deleted {
					continue
				}
				body[BodyRev] = last.rev
			} else if del {
				continue
			}
			if del {
				body[BodyDeleted] = true
			}
			rev, doc, err := coll.Put(ctx, id+sfx, body)
			if err != nil {
				r.Violate("C01b/write-failed", fmt.Sprintf("%s in %v: %v", sym, hist, err), rep)
				return
			}
			w.writes[id] = append(w.writes[id], c01bWrite{seq: doc.Sequence, rev: rev, chans: chans, deleted: del})
			w.seqs = append(w.seqs, doc.Sequence)
			c01bWait(db, ctx)
		}
	}
	query := func(di int, userName string, since SequenceID, limit int, activeOnly bool) ([]c01bEntry, []SequenceID, error) {
		ctx, coll := e.ctxs[di], e.colls[di]
		uc := *coll
		if userName != "admin" {
			u, err := e.dbs[di].Authenticator(ctx).GetUser(userName + sfx)
			if err != nil || u == nil {
				return nil, nil, fmt.Errorf("get user: %v", err)
			}
			uc.user = u
		}
		feed, err := uc.MultiChangesFeed(ctx, base.SetOf("*"), ChangesOptions{Since: since, Limit: limit, ActiveOnly: activeOnly, ChangesCtx: ctx})
		if err != nil {
			return nil, nil, err
		}
		var out []c01bEntry
		var seqs []SequenceID
		for en := range feed {
			if en == nil || strings.HasPrefix(en.ID, "_user/") || strings.HasPrefix(en.ID, "_role/") {
				continue
			}
			if en.Err != nil {
				return nil, nil, en.Err
			}
			if !strings.HasSuffix(en.ID, sfx) {
				continue // another history's document (possible only for the wildcard requesters)
			}
			rev := ""
			if len(en.Changes) > 0 {
				rev = en.Changes[0][ChangesVersionTypeRevTreeID]
			}
			var rem []string
			for c := range en.Removed {
				rem = append(rem, strings.TrimSuffix(c, sfx))
			}
			sort.Strings(rem)
			out = append(out, c01bEntry{Seq: en.Seq.String(), SeqNum: en.Seq.Seq, ID: strings.TrimSuffix(en.ID, sfx), Rev: rev, Deleted: en.Deleted, Removed: strings.Join(rem, ",")})
			seqs = append(seqs, en.Seq)
		}
		return out, seqs, nil
	}
	list := func(l []c01bEntry) string {
		var p []string
		for _, x := range l {
			p = append(p, x.String())
		}
		return "[" + strings.Join(p, " ") + "]"
	}
	// relative form: sequence numbers replaced by their index in this database's history (twins have different numbers)
	rel := func(di int, l []c01bEntry) string {
		idx := map[uint64]int{}
		for i, s := range worlds[di].seqs {
			idx[s] = i + 1
		}
		var p []string
		for _, x := range l {
			y := x
			y.Seq = fmt.Sprintf("#%d", idx[x.SeqNum])
			p = append(p, y.String())
		}
		return "[" + strings.Join(p, " ") + "]"
	}
	requesters := []string{"admin", "uA", "uB", "uAB", "uStar", "uNone"}
	w0 := worlds[0]
	for _, who := range requesters {
		visible := func(c string) bool {
			switch who {
			case "admin", "uStar":
				return true
			}
			for _, x := range c01bUsers[who] {
				if x == c {
					return true
				}
			}
			return false
		}
		sinces := append([]uint64{0, w0.start}, w0.seqs...)
		for si, sinceNum := range sinces {
			for _, limit := range []int{0, 1, 2} {
				if limit > 0 && sinceNum < w0.start {
					// below the start of this history the answer also contains the requester's own principal entry and, for the
					// wildcard requesters, documents of earlier histories: they count towards the limit, so limited requests
					// are only judged from positions inside this history
					continue
				}
				for _, ao := range []bool{false, true} {
					tag := fmt.Sprintf("%s/limit=%d/active_only=%v", map[bool]string{true: "admin-or-wildcard", false: "user"}[who == "admin" || who == "uStar"], limit, ao)
					res, resSeqs, err := query(0, who, SequenceID{Seq: sinceNum}, limit, ao)
					r.Add("requests", 1)
					if err != nil {
						r.Violate("C01b/request-failed/"+tag, fmt.Sprintf("%v; history %v requester %s since %d", err, hist, who, sinceNum), rep)
						continue
					}
					desc := fmt.Sprintf("history %v, requester %s, since=%d (history sequences %v), limit=%d, active_only=%v -> %s", hist, who, sinceNum, w0.seqs, limit, ao, list(res))
					// --- clauses of the property
					seen := map[string]bool{}
					for i, x := range res {
						if i > 0 && !resSeqs[i-1].Before(resSeqs[i]) {
							viol(r, "C01b/not-ascending/"+tag, desc, rep)
						}
						if seen[x.ID+"@"+x.Seq] {
							viol(r, "C01b/duplicate-entry/"+tag, desc, rep)
						}
						seen[x.ID+"@"+x.Seq] = true
						if x.SeqNum <= sinceNum {
							viol(r, "C01b/entry-not-after-since/"+tag, desc, rep)
						}
						if limit > 0 && len(res) > limit {
							viol(r, "C01b/limit-exceeded/"+tag, desc, rep)
						}
						// nothing that belongs only to channels the requester cannot see
						ws := w0.writes[x.ID]
						everVisible := false
						for _, wr := range ws {
							for c := range wr.chans {
								if visible(c) {
									everVisible = true
								}
							}
						}
						if !everVisible && who != "admin" && who != "uStar" {
							viol(r, "C01b/invisible-document-listed/"+tag, desc, rep)
						}
					}
					horizon := uint64(1 << 62)
					if limit > 0 && len(res) >= limit {
						horizon = res[len(res)-1].SeqNum
					}
					for id, ws := range w0.writes {
						cur := ws[len(ws)-1]
						if cur.seq <= sinceNum || cur.seq > horizon {
							continue
						}
						curVisible := false
						for c := range cur.chans {
							if visible(c) {
								curVisible = true
							}
						}
						if (who == "admin" || who == "uStar") && !cur.deleted {
							curVisible = true // the wildcard channel contains every live document
						}
						found := false
						for _, x := range res {
							if x.ID == id && x.SeqNum == cur.seq {
								found = true
								if x.Rev != cur.rev {
									viol(r, "C01b/wrong-revision/"+tag, desc, rep)
								}
							}
						}
						if curVisible && !cur.deleted && !found {
							viol(r, "C01b/visible-change-missing/"+tag, fmt.Sprintf("document %s (current rev %s at seq %d, channels %v) is missing. %s", id, cur.rev, cur.seq, cur.chans, desc), rep)
						}
						if !ao && !curVisible || (!ao && cur.deleted) {
							// left the requester's view (or was deleted) after since: a notice is due if it was visible at some earlier write
							wasVisible := false
							for _, wr := range ws[:len(ws)-1] {
								for c := range wr.chans {
									if visible(c) {
										wasVisible = true
									}
								}
								if who == "admin" || who == "uStar" {
									wasVisible = wasVisible || !wr.deleted
								}
							}
							if wasVisible {
								notice := false
								for _, x := range res {
									if x.ID == id && (x.Deleted || x.Removed != "") {
										notice = true
									}
								}
								// the leaving sequence may be earlier than the current one (left A at 3, changed again at 5)
								left := uint64(0)
								for i := len(ws) - 1; i > 0; i-- {
									nowVis, prevVis := false, false
									for c := range ws[i].chans {
										nowVis = nowVis || visible(c)
									}
									for c := range ws[i-1].chans {
										prevVis = prevVis || visible(c)
									}
									if who == "admin" || who == "uStar" {
										nowVis, prevVis = !ws[i].deleted, !ws[i-1].deleted
									}
									if prevVis && !nowVis {
										left = ws[i].seq
										break
									}
								}
								if left > sinceNum && left <= horizon && !notice {
									viol(r, "C01b/removal-notice-missing/"+tag, fmt.Sprintf("document %s left the requester's view at seq %d but no removal or deletion notice is listed. %s", id, left, desc), rep)
								}
							}
						}
					}
					// --- differential twins (relative sequence form)
					base0 := rel(0, res)
					if si < 2 || true {
						twinSince := func(di int) SequenceID {
							switch {
							case si == 0:
								return SequenceID{}
							case si == 1:
								return SequenceID{Seq: worlds[di].start}
							}
							return SequenceID{Seq: worlds[di].seqs[si-2]}
						}
						tiny, _, err := query(1, who, twinSince(1), limit, ao)
						if err == nil && rel(1, tiny) != base0 {
							viol(r, "C01b/twin-differs/tiny-cache/"+tag, fmt.Sprintf("a database whose channel caches hold one entry answers %s. %s", rel(1, tiny), desc), rep)
						}
					}
					// paging: resume from each returned position gives the suffix
					if limit == 0 && !ao && sinceNum >= w0.start {
						for i := range res {
							suffix, _, err := query(0, who, resSeqs[i], 0, false)
							if err == nil && list(suffix) != list(res[i+1:]) {
								viol(r, "C01b/resume-from-returned-position-differs/"+tag, fmt.Sprintf("resuming from position %s of the answer gives %s, expected the remaining suffix. %s", res[i].Seq, list(suffix), desc), rep)
							}
						}
						for _, k := range []int{1, 2} {
							var paged []c01bEntry
							pos := SequenceID{Seq: sinceNum}
							for pg := 0; pg < 20; pg++ {
								page, pseqs, err := query(0, who, pos, k, false)
								if err != nil || len(page) == 0 {
									break
								}
								paged = append(paged, page...)
								pos = pseqs[len(pseqs)-1]
								if len(page) < k {
									break
								}
							}
							if list(paged) != list(res) {
								viol(r, fmt.Sprintf("C01b/paged-answer-differs/limit=%d/%s", k, tag), fmt.Sprintf("paging with limit %d concatenates to %s. %s", k, list(paged), desc), rep)
							}
						}
					}
				}
			}
		}
	}
	// cold-cache twin: clear the caches of both databases and repeat the unpaged requests
	for di := range e.dbs {
		_ = e.dbs[di].changeCache.Clear(e.ctxs[di])
	}
	for _, who := range requesters {
		for si := -1; si < len(w0.seqs); si++ {
			s0, s1 := SequenceID{}, SequenceID{}
			if si >= 0 {
				s0, s1 = SequenceID{Seq: worlds[0].seqs[si]}, SequenceID{Seq: worlds[1].seqs[si]}
			}
			for _, limit := range []int{0, 2} {
				if limit > 0 && si < 0 {
					continue
				}
				cold0, _, err0 := query(0, who, s0, limit, false)
				cold1, _, err1 := query(1, who, s1, limit, false)
				r.Add("requests", 2)
				if err0 != nil || err1 != nil {
					continue
				}
				if rel(0, cold0) != rel(1, cold1) {
					viol(r, fmt.Sprintf("C01b/twin-differs/cold-caches/limit=%d", limit), fmt.Sprintf("after clearing the caches the default database answers %s and the one-entry-cache database %s; history %v requester %s since #%d", rel(0, cold0), rel(1, cold1), hist, who, si+1), rep)
				}
				warmAgain, _, err := query(0, who, s0, limit, false)
				if err == nil && list(warmAgain) != list(cold0) {
					viol(r, fmt.Sprintf("C01b/twin-differs/cold-then-warm/limit=%d", limit), fmt.Sprintf("the same request answered %s from a cold cache and %s right after; history %v requester %s", list(cold0), list(warmAgain), hist, who), rep)
				}
			}
		}
	}
}

func viol(r *vreport.Report, fp, detail string, rep any) { r.Violate(fp, detail, rep) }

func TestVerifC01b(t *testing.T) {
	r := vreport.Begin("C01")
	defer r.Finish(t)
	r.Rule("(b) every history up to depth D over {create/update d1 in A, B, A+B, no channel; delete d1; d2 in A, A+B; delete d2} on two real databases (default caches; per-channel cache length 1), then every requester {admin, user with A, B, A+B, *, none} x since {0, before the history, every sequence of the history} x limit {0,1,2} x active_only: property clauses from a reference model, differential twins (tiny cache, cleared caches, cold-then-warm), paging with limit 1 and 2, resume from every returned position; non-trivial = distinct history")
	e := c01bNewEnv(t)
	defer e.close()
	var rc c01bCase
	if r.Replaying(&rc) {
		e.run(t, r, rc.Hist)
		return
	}
	D := 3
	if r.Thorough() {
		D = 4
	}
	r.Note("history_depth", D)
	idx := 0
	var rec func(h []string)
	rec = func(h []string) {
		if len(h) == D {
			idx++
			if r.Mine(idx) && !r.Expired() {
				if e.n%60 == 59 {
					e.close()
					*e = *c01bNewEnv(t)
				}
				e.run(t, r, h)
				r.Add("evaluations", 1)
				r.Add("distinct_nontrivial", 1)
				if idx%97 == 0 {
					r.Sample(map[string]any{"history": append([]string{}, h...)})
				}
			}
			return
		}
		for _, s := range c01bAlphabet {
			rec(append(append([]string{}, h...), s))
		}
	}
	rec(nil)
	if r.Expired() {
		r.Cap("time budget reached before all histories were explored")
	}
}
