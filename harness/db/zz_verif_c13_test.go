//go:build verif

package db

import (
	"context"
	"fmt"
	"os"
	"sort"
	"strings"
	"testing"
	"time"

	"github.com/couchbase/sync_gateway/auth"
	"github.com/couchbase/sync_gateway/base"
	"github.com/couchbase/sync_gateway/verifshim/vreport"
	"github.com/couchbase/sync_gateway/verifshim/vstore"
)

// C13 — a pulling client's copy always matches the user's current access.
// E3: every history of world events (document channel moves / deletes, admin and sync-function grant changes
// for a user and a role, role deletion) interleaved with pulls by a protocol-following client that resumes
// from the last position it received, with revocations enabled and paging limits. After every completed
// pull the client's documents must be exactly the documents whose current revision the user can see.

var c13World = []string{
	"d1:A", "d1:B", "d1:del", "d2:AB", "d2:none",
	"u:A", "u:none", "u+r", "u-r", "r:B", "r:none", "r:del",
	"g:u:A", "g:r:A", "g:none", "g:del",
}

type c13Doc struct {
	rev     string
	chans   []string
	deleted bool
	exists  bool
}

type c13Run struct {
	e       *c13Env
	sfx     string
	docs    map[string]*c13Doc // d1 d2 g
	grantTo string             // "" | "u" | "r" (granting doc g's current grant of channel A)
	uAdm    map[string]bool
	uRole   bool
	rAdm    map[string]bool
	rLive   bool
	replica map[string]string // doc -> rev held by the client
	last    SequenceID
	hist    []string
	revoked map[string]bool
	pullN   int
	// why each document left the user's view (the world event that did it) and whether it was written again since
	lostBy        map[string]string
	rewrittenLost map[string]bool
	regrantSince  map[string]bool // a grant event happened after the document left the view
	roleDelSince  map[string]bool // the role was deleted after the document left the view
	innerViol     map[string]string
	innerVisible  map[string]string
	open          *c13Open
	markerN       int
	abandoned     bool
	viaVV         bool
	vvN           int
}

// c13Open is an open (continuous) pull
type c13Open struct {
	feed   <-chan *ChangeEntry
	cancel context.CancelFunc
}

func (r *c13Run) startOpen() error {
	e := r.e
	u, err := e.db.Authenticator(e.ctx).GetUser(r.n("u"))
	if err != nil || u == nil {
		return fmt.Errorf("get user: %v", err)
	}
	uc := *e.coll
	uc.user = u
	cctx, cancel := context.WithCancel(e.ctx)
	feed, err := uc.MultiChangesFeed(cctx, base.SetOf("*"), ChangesOptions{Since: r.last, Revocations: true, Continuous: true, Wait: true, ChangesCtx: cctx})
	if err != nil {
		cancel()
		return err
	}
	r.open = &c13Open{feed: feed, cancel: cancel}
	return nil
}

// syncOpen waits until the open pull has delivered everything up to now (a marker document in the public channel is
// written and awaited on the feed), applying every entry as the client would, then judges the replica
func (r *c13Run) syncOpen(rep *vreport.Report) map[string]string {
	viol := map[string]string{}
	e := r.e
	r.pullN++
	r.markerN++
	marker := r.n(fmt.Sprintf("mk%d", r.markerN))
	if _, _, err := e.coll.Put(e.ctx, marker, Body{"channels": []string{"!"}}); err != nil {
		viol["C13/harness/marker"] = err.Error()
		return viol
	}
	c13WaitFeed(e)
	u, err := e.db.Authenticator(e.ctx).GetUser(r.n("u"))
	if err != nil || u == nil {
		viol["C13/harness/get-user"] = fmt.Sprint(err)
		return viol
	}
	uc := *e.coll
	uc.user = u
	deadline := time.After(30 * time.Second)
	round := 0
	settled := false
	for {
		select {
		case entry, ok := <-r.open.feed:
			if !ok {
				viol["C13/open-pull/feed-closed"] = fmt.Sprintf("the open pull ended by itself; history %v", r.hist)
				return viol
			}
			if entry == nil {
				continue
			}
			if entry.Err != nil {
				viol["C13/changes-entry-error/open"] = entry.Err.Error()
				continue
			}
			if entry.ID == marker {
				r.last = entry.Seq
				if settled {
					return viol
				}
				probe := map[string]string{}
				r.compare("open", &uc, probe)
				if len(probe) > 0 && round < 6 {
					// "eventually": a change of the user's access reaches the feed through the user document, which is not
					// ordered with the marker; give the feed further wake-ups before judging
					round++
					time.Sleep(100 * time.Millisecond)
					r.markerN++
					marker = r.n(fmt.Sprintf("mk%d", r.markerN))
					if _, _, err := e.coll.Put(e.ctx, marker, Body{"channels": []string{"!"}}); err != nil {
						viol["C13/harness/marker"] = err.Error()
						return viol
					}
					continue
				}
				for k, v := range probe {
					viol[k] = v
				}
				if !settled {
					// one more marker round without judging: when it has come through, the feed has consumed every
					// notification raised so far and is back in its wait, so that the next world event meets an idle
					// feed (deterministically) instead of racing the feed's pending user reloads
					settled = true
					r.markerN++
					marker = r.n(fmt.Sprintf("mk%d", r.markerN))
					if _, _, err := e.coll.Put(e.ctx, marker, Body{"channels": []string{"!"}}); err != nil {
						viol["C13/harness/marker"] = err.Error()
						return viol
					}
					continue
				}
				return viol
			}
			if strings.HasPrefix(strings.TrimSuffix(entry.ID, r.sfx), "mk") {
				continue
			}
			r.applyEntry(entry, &uc, "open", 0, viol)
		case <-deadline:
			r.abandoned = true
			rep.Add("open_pull_scenarios_abandoned", 1)
			rep.Cap("an open-pull scenario was abandoned: the marker document did not arrive on the feed within 20 s")
			return viol
		}
	}
}

type c13Env struct {
	vb    *vstore.Bucket // hooks stay off except inside the composite role-deletion event
	tb    *base.TestBucket
	db    *Database
	ctx   context.Context
	coll  *DatabaseCollectionWithUser
	n     int
	debug bool
}

func (r *c13Run) n(s string) string { return s + r.sfx }

func (r *c13Run) put(id string, chans []string, extra Body, del bool) error {
	d := r.docs[id]
	if d == nil {
		d = &c13Doc{}
		r.docs[id] = d
	}
	body := Body{}
	for k, v := range extra {
		body[k] = v
	}
	var cs []string
	for _, c := range chans {
		cs = append(cs, r.n(c))
	}
	body["channels"] = cs
	if d.exists && !d.deleted {
		body[BodyRev] = d.rev
	} else if d.exists && d.deleted {
		body[BodyRev] = d.rev
	}
	if del {
		if !d.exists || d.deleted {
			return nil
		}
		body = Body{BodyRev: d.rev, BodyDeleted: true}
	}
	var rev string
	var err error
	if r.viaVV {
		rev, err = r.putVV(r.n(id), d, body, del)
	} else {
		rev, _, err = r.e.coll.Put(r.e.ctx, r.n(id), body)
	}
	if err != nil {
		return err
	}
	d.rev, d.exists, d.deleted, d.chans = rev, true, del, chans
	if del {
		d.chans = nil
	}
	return nil
}

// putVV writes the revision as it arrives from another Sync Gateway under the version-vector protocol (non-conflicting:
// the vector dominates the local one, the history continues the local current revision)
func (r *c13Run) putVV(docID string, d *c13Doc, body Body, del bool) (string, error) {
	e := r.e
	r.vvN++
	incoming := &HybridLogicalVector{SourceID: "cmVtb3Rl", Version: uint64(time.Now().UnixNano()) + 1000000000, PreviousVersions: HLVVersions{}}
	gen := 1
	var history []string
	if d.exists {
		cur, err := e.coll.GetDocument(e.ctx, docID, DocUnmarshalSync)
		if err != nil {
			return "", err
		}
		g, _ := ParseRevID(e.ctx, d.rev)
		gen = g + 1
		history = []string{d.rev}
		if cur.HLV != nil {
			for src, v := range cur.HLV.PreviousVersions {
				incoming.PreviousVersions[src] = v
			}
			if cur.HLV.SourceID != incoming.SourceID {
				incoming.PreviousVersions[cur.HLV.SourceID] = cur.HLV.Version
			}
			if cur.HLV.Version >= incoming.Version {
				incoming.Version = cur.HLV.Version + 1000
			}
			delete(incoming.PreviousVersions, incoming.SourceID)
		}
	}
	rev := fmt.Sprintf("%d-vv%d", gen, r.vvN)
	history = append([]string{rev}, history...)
	newDoc := &Document{ID: docID, RevID: rev, Deleted: del, HLV: incoming}
	b := Body{}
	for k, v := range body {
		if k != BodyRev && k != BodyDeleted {
			b[k] = v
		}
	}
	newDoc.UpdateBody(b)
	_, _, _, err := e.coll.PutExistingCurrentVersion(e.ctx, PutDocOptions{NewDoc: newDoc, RevTreeHistory: history, NewDocHLV: incoming, ISGRWrite: true,
		ForceAllowConflictingTombstone: del, ConflictResolver: NewConflictResolver(DefaultLWWConflictResolutionType, nil)})
	return rev, err
}

func (r *c13Run) world(sym string) error {
	e := r.e
	r.viaVV = false
	if strings.Contains(sym, "~:") {
		// "d1~:B": the write arrives as a replicated version-vector revision
		sym, r.viaVV = strings.Replace(sym, "~:", ":", 1), true
		defer func() { r.viaVV = false }()
	}
	user := func(cfg *auth.PrincipalConfig) error {
		cfg.Name = base.Ptr(r.n("u"))
		_, _, err := e.db.UpdatePrincipal(e.ctx, cfg, true, true)
		return err
	}
	switch sym {
	case "d1:A":
		return r.put("d1", []string{"A"}, nil, false)
	case "d1:B":
		return r.put("d1", []string{"B"}, nil, false)
	case "d1:del":
		return r.put("d1", nil, nil, true)
	case "d2:AB":
		return r.put("d2", []string{"A", "B"}, nil, false)
	case "d2:none":
		return r.put("d2", nil, nil, false)
	case "u:A":
		r.uAdm = map[string]bool{"A": true}
		return user(&auth.PrincipalConfig{ExplicitChannels: base.SetOf(r.n("A"))})
	case "u:none":
		r.uAdm = map[string]bool{}
		return user(&auth.PrincipalConfig{ExplicitChannels: base.Set{}})
	case "u+r":
		r.uRole = true
		return user(&auth.PrincipalConfig{ExplicitRoleNames: base.SetOf(r.n("r"))})
	case "u-r":
		r.uRole = false
		return user(&auth.PrincipalConfig{ExplicitRoleNames: base.Set{}})
	case "r:B", "r:none":
		chans := base.Set{}
		r.rAdm = map[string]bool{}
		if sym == "r:B" {
			chans = base.SetOf(r.n("B"))
			r.rAdm["B"] = true
		}
		r.rLive = true
		_, _, err := e.db.UpdatePrincipal(e.ctx, &auth.PrincipalConfig{Name: base.Ptr(r.n("r")), ExplicitChannels: chans}, false, true)
		return err
	case "r:del":
		if !r.rLive {
			return nil
		}
		r.rLive = false
		return e.db.DeleteRole(e.ctx, r.n("r"), false)
	case "r:del*":
		// the role is deleted while, between the deletion's read of the role and its write, an administrator gives the
		// role channel C and the client pulls (so it holds the documents of C); the deletion's write then loses its CAS
		// race and starts over. Afterwards the user has lost everything the role gave, incl. C.
		if !r.rLive {
			return nil
		}
		H := e.vb.H
		roleKey := e.db.MetadataKeys.RoleKey(r.n("r"))
		fired := false
		H.Select = func(op, key string) bool { return key == roleKey }
		H.Plan = func(seq int, op, key string, write bool) vstore.Injection {
			if fired || !write {
				return vstore.None
			}
			fired = true
			H.Enabled = false
			chans := base.Set{}
			for c := range r.rAdm {
				chans.Add(r.n(c))
			}
			chans.Add(r.n("C"))
			if _, _, err := e.db.UpdatePrincipal(e.ctx, &auth.PrincipalConfig{Name: base.Ptr(r.n("r")), ExplicitChannels: chans}, false, true); err == nil {
				r.rAdm["C"] = true
				r.innerVisible = r.visible()
				c13WaitFeed(e)
				for fp, d := range r.pull(0) {
					if r.innerViol == nil {
						r.innerViol = map[string]string{}
					}
					r.innerViol[fp] = d
				}
			}
			H.Enabled = true
			return vstore.None // the store itself now reports the CAS mismatch
		}
		H.Enabled = true
		err := e.db.DeleteRole(e.ctx, r.n("r"), false)
		H.Enabled, H.Plan, H.Select = false, nil, nil
		r.rLive = false
		return err
	case "g:u:A":
		r.grantTo = "u"
		return r.put("g", []string{"G"}, Body{"gu": r.n("u"), "gc": r.n("A")}, false)
	case "g:r:A":
		r.grantTo = "r"
		return r.put("g", []string{"G"}, Body{"gu": "role:" + r.n("r"), "gc": r.n("A")}, false)
	case "g:none":
		r.grantTo = ""
		return r.put("g", []string{"G"}, nil, false)
	case "g:del":
		r.grantTo = ""
		return r.put("g", nil, nil, true)
	}
	// generic "<doc>:<channels>" for further documents (d3:A, d4:AB, ...)
	if i := strings.Index(sym, ":"); i > 0 && strings.HasPrefix(sym, "d") {
		var chans []string
		for _, c := range sym[i+1:] {
			chans = append(chans, string(c))
		}
		return r.put(sym[:i], chans, nil, false)
	}
	return fmt.Errorf("unknown symbol %s", sym)
}

func (r *c13Run) effective() map[string]bool {
	ch := map[string]bool{}
	for c := range r.uAdm {
		ch[c] = true
	}
	g := r.docs["g"]
	grantLive := g.exists && !g.deleted
	if grantLive && r.grantTo == "u" {
		ch["A"] = true
	}
	if r.uRole && r.rLive {
		for c := range r.rAdm {
			ch[c] = true
		}
		if grantLive && r.grantTo == "r" {
			ch["A"] = true
		}
	}
	return ch
}

func (r *c13Run) visible() map[string]string {
	eff := r.effective()
	out := map[string]string{}
	for id, d := range r.docs {
		if !d.exists || d.deleted {
			continue
		}
		for _, c := range d.chans {
			if eff[c] {
				out[id] = d.rev
			}
		}
	}
	return out
}

// applyEntry is the client's handling of one announced change
func (r *c13Run) applyEntry(entry *ChangeEntry, uc *DatabaseCollectionWithUser, tag string, page int, viol map[string]string) {
	e := r.e
	if strings.HasPrefix(entry.ID, "_user/") || strings.HasPrefix(entry.ID, "_role/") {
		r.last = entry.Seq
		return
	}
	r.last = entry.Seq
	if r.e.debug {
		fmt.Printf("REPLAY-ENTRY pull%d page%d seq=%s id=%s deleted=%v revoked=%v removed=%v allRemoved=%v changes=%v\n", r.pullN, page, entry.Seq.String(), entry.ID, entry.Deleted, entry.Revoked, entry.Removed, entry.allRemoved, entry.Changes)
	}
	if !strings.HasSuffix(entry.ID, r.sfx) || strings.HasPrefix(entry.ID, "mk") {
		return // a marker document (public channel), of this or of another history run on the same database
	}
	short := strings.TrimSuffix(entry.ID, r.sfx)
	if entry.Deleted || entry.Revoked || entry.allRemoved {
		if entry.Revoked {
			r.revoked[short] = true
			if _, vis := r.visible()[short]; vis {
				viol["C13/revocation-for-visible-document/"+tag] = fmt.Sprintf("document %s announced as revoked but the user can still see it (history %v)", short, r.hist)
			}
		}
		delete(r.replica, short)
		return
	}
	rev := ""
	if len(entry.Changes) > 0 {
		rev = entry.Changes[0][ChangesVersionTypeRevTreeID]
	}
	body, ferr := uc.Get1xRevBody(e.ctx, entry.ID, rev, false, nil)
	if ferr != nil {
		viol["C13/announced-change-not-fetchable/"+tag] = fmt.Sprintf("document %s rev %s announced to the user but fetching it fails: %v (history %v)", short, rev, ferr, r.hist)
		return
	}
	if removed, _ := body[BodyRemoved].(bool); removed {
		delete(r.replica, short)
		return
	}
	r.replica[short] = rev
	delete(r.revoked, short)
}

// pull runs the client until it is caught up; returns violations.
func (r *c13Run) pull(limit int) map[string]string {
	viol := map[string]string{}
	e := r.e
	r.pullN++
	u, err := e.db.Authenticator(e.ctx).GetUser(r.n("u"))
	if err != nil || u == nil {
		viol["C13/harness/get-user"] = fmt.Sprint(err)
		return viol
	}
	uc := *e.coll
	uc.user = u
	tag := fmt.Sprintf("limit=%d", limit)
	if e.debug {
		rc, rerr := u.RevokedCollectionChannels(uc.ScopeName, uc.Name, r.last.Seq, r.last.LowSeq, r.last.TriggeredBy)
		inh, _ := u.InheritedCollectionChannels(uc.ScopeName, uc.Name)
		fmt.Printf("REPLAY-ENTRY pull%d since=%s scope=%q coll=%q revokedChannels=%v err=%v inherited=%v history=%v\n", r.pullN, r.last.String(), uc.ScopeName, uc.Name, rc, rerr, inh.AllKeys(), u.CollectionChannelHistory(uc.ScopeName, uc.Name))
	}
	for page := 0; page < 50; page++ {
		opts := ChangesOptions{Since: r.last, Limit: limit, Revocations: true, ChangesCtx: e.ctx}
		feed, err := uc.MultiChangesFeed(e.ctx, base.SetOf("*"), opts)
		if err != nil {
			viol["C13/changes-error/"+tag] = err.Error()
			return viol
		}
		n := 0
		for entry := range feed {
			if entry == nil {
				continue
			}
			if entry.Err != nil {
				viol["C13/changes-entry-error/"+tag] = entry.Err.Error()
				continue
			}
			n++ // principal pseudo-entries count towards the limit too
			r.applyEntry(entry, &uc, tag, page, viol)
		}
		if limit == 0 || n < limit {
			break
		}
	}
	r.compare(tag, &uc, viol)
	return viol
}

// compare judges the client replica against what the user can see now
func (r *c13Run) compare(tag string, uc *DatabaseCollectionWithUser, viol map[string]string) {
	e := r.e
	_ = e
	// the replica must equal the documents the user can see now
	want := r.visible()
	for id, rev := range want {
		got, ok := r.replica[id]
		if !ok {
			viol["C13/visible-document-missing-from-client/"+tag] = fmt.Sprintf("after pull %d the client lacks %s (current rev %s) although the user can see it; client has %v; history %v", r.pullN, id, rev, r.replica, r.hist)
		} else if got != rev {
			viol["C13/client-holds-stale-revision/"+tag] = fmt.Sprintf("after pull %d the client holds %s at %s, current is %s; history %v", r.pullN, id, got, rev, r.hist)
		}
	}
	for id := range r.replica {
		if _, ok := want[id]; !ok {
			why := "left the user's view"
			// root cause class: which kind of event took the document out of the user's view; a deleted role is its own class
			// (the role's channel history is gone with it), with the two ways it shows: the document was written again after
			// the loss, or the revocations had to be paged
			if lb := r.lostBy[id]; (strings.HasPrefix(lb, "d") || (r.rewrittenLost[id] && lb != "r:del" && lb != "r:del*")) && r.regrantSince[id] {
				// the document was deleted (or moved out) and, before the client pulled, a channel was granted again:
				// the request then back-fills that channel from the start and a back-fill does not carry deletions / removals
				viol["C13/client-keeps-document-deleted-or-moved-before-a-channel-was-granted-again"] = fmt.Sprintf("after pull %d the client still holds %s, which was %s and has had no removal, deletion or revocation notice since; a channel was granted (again) between that and the pull; user can see %v; history %v", r.pullN, id, lb, want, r.hist)
				continue
			}
			if lb := r.lostBy[id]; strings.HasPrefix(lb, "d") && r.roleDelSince[id] {
				viol["C13/client-keeps-document-after-role-deletion/document-deleted-or-moved-before-the-deletion"] = fmt.Sprintf("after pull %d the client still holds %s, which was %s while the user still had the role, and the role was deleted before the client pulled: neither the deletion / removal nor a revocation is reported; user can see %v; history %v", r.pullN, id, lb, want, r.hist)
				continue
			}
			if r.lostBy[id] == "r:del*" {
				viol["C13/client-keeps-document-after-role-deletion/deletion-raced-by-a-grant-to-the-role"] = fmt.Sprintf("after pull %d the client still holds %s: the role was deleted while it was being given a further channel and the client pulled in between; the deletion keeps the sequence it reserved before the grant, so for a client whose position is already past it the loss of the role's channels is never reported; user can see %v; history %v", r.pullN, id, want, r.hist)
				continue
			}
			if r.lostBy[id] == "r:del" {
				kind := "paged-revocation"
				if r.rewrittenLost[id] {
					kind = "document-rewritten-after-the-loss"
				}
				viol["C13/client-keeps-document-after-role-deletion/"+kind] = fmt.Sprintf("after pull %d the client still holds %s, which left the user's view when the role was deleted, without a removal, deletion or revocation notice; user can see %v; history %v", r.pullN, id, want, r.hist)
				continue
			}
			viol["C13/client-keeps-document-it-may-no-longer-see/"+tag] = fmt.Sprintf("after pull %d the client still holds %s which %s without a removal, deletion or revocation notice; user can see %v; history %v", r.pullN, id, why, want, r.hist)
		}
	}
	// a revoked document can no longer be fetched
	for id := range r.revoked {
		if _, vis := want[id]; vis {
			continue
		}
		body, ferr := uc.Get1xRevBody(e.ctx, r.n(id), "", false, nil)
		if ferr == nil {
			if removed, _ := body[BodyRemoved].(bool); !removed {
				viol["C13/revoked-document-still-fetchable/"+tag] = fmt.Sprintf("document %s was revoked but can still be fetched by the user; history %v", id, r.hist)
			}
		}
	}
}

// c13WaitFeed waits (spinning, sub-millisecond granularity) until the change cache has processed every allocated sequence.
func c13WaitFeed(e *c13Env) {
	last, err := e.db.sequences.lastSequence(e.ctx)
	if err != nil {
		return
	}
	deadline := time.Now().Add(20 * time.Second)
	start := time.Now()
	logged := false
	for time.Now().Before(deadline) {
		if e.db.changeCache.getNextSequence() >= last+1 {
			return
		}
		if e.debug && !logged && time.Since(start) > 200*time.Millisecond {
			logged = true
			e.db.changeCache.lock.RLock()
			var pend []uint64
			for _, p := range e.db.changeCache.pendingLogs {
				pend = append(pend, p.Sequence)
			}
			nx := e.db.changeCache.nextSequence
			fmt.Printf("SLOWWAIT next=%d last=%d pending=%v s.last=%d s.max=%d hist=%v\n", nx, last, pend, e.db.sequences.last, e.db.sequences.max, c13Cur)
			e.db.changeCache.lock.RUnlock()
			a := e.db.Authenticator(e.ctx)
			sfx := fmt.Sprintf("_%d", e.n)
			if u, _ := a.GetUser("u" + sfx); u != nil {
				fmt.Printf("SLOWWAIT   user seq=%d\n", u.Sequence())
			}
			if ro, _ := a.GetRoleIncDeleted("r" + sfx); ro != nil {
				fmt.Printf("SLOWWAIT   role seq=%d deleted=%v\n", ro.Sequence(), ro.IsDeleted())
			}
			for _, id := range []string{"d1", "d2", "g"} {
				if d, _ := e.coll.GetDocument(e.ctx, id+sfx, DocUnmarshalSync); d != nil {
					fmt.Printf("SLOWWAIT   %s seq=%d recent=%v\n", id, d.Sequence, d.RecentSequences)
				}
			}
		}
		time.Sleep(100 * time.Microsecond)
	}
}

var c13Cur []string

type c13Case struct {
	Hist []string `json:"hist"` // world symbols and "pull:<limit>"
}

const c13SyncFn = `function(doc, oldDoc) { channel(doc.channels); if (doc.gu) { access(doc.gu, doc.gc); } }`

func (e *c13Env) run(t testing.TB, r *vreport.Report, hist []string) {
	e.n++
	run := &c13Run{e: e, sfx: fmt.Sprintf("_%d", e.n), docs: map[string]*c13Doc{"d1": {}, "d2": {}, "g": {}}, uAdm: map[string]bool{}, rAdm: map[string]bool{}, rLive: true,
		replica: map[string]string{}, revoked: map[string]bool{}}
	if _, _, err := e.db.UpdatePrincipal(e.ctx, &auth.PrincipalConfig{Name: base.Ptr(run.n("r"))}, false, false); err != nil {
		t.Fatalf("setup role: %v", err)
	}
	if _, _, err := e.db.UpdatePrincipal(e.ctx, &auth.PrincipalConfig{Name: base.Ptr(run.n("u")), Password: base.Ptr("letmein")}, true, false); err != nil {
		t.Fatalf("setup user: %v", err)
	}
	c13WaitFeed(e)
	for i, sym := range hist {
		run.hist = hist[:i+1]
		c13Cur = run.hist
		t0 := time.Now()
		if e.debug {
			defer func(sym string, t0 time.Time) {
				fmt.Printf("REPLAY-ENTRY timing %s started at %v\n", sym, t0.Format("15:04:05.000"))
			}(sym, t0)
		}
		if sym == "open" {
			if err := run.startOpen(); err != nil {
				r.Violate("C13/open-pull/start-failed", err.Error(), c13Case{Hist: hist[:i+1]})
				return
			}
			defer run.open.cancel()
			// let the pull establish itself (its goroutine creates the change waiter and reloads the user) and catch up
			// before the next world event, so that the event meets a running, idle feed rather than racing its start-up
			c13WaitFeed(e)
			for fp, d := range run.syncOpen(r) {
				r.Violate(fp, d, c13Case{Hist: hist[:i+1]})
			}
			if run.abandoned {
				return
			}
			continue
		}
		if strings.HasPrefix(sym, "pull:") && run.open != nil {
			c13WaitFeed(e)
			for fp, d := range run.syncOpen(r) {
				r.Violate(fp, d, c13Case{Hist: hist[:i+1]})
			}
			if run.abandoned {
				return
			}
			r.Add("open_pull_sync_points", 1)
			continue
		}
		if strings.HasPrefix(sym, "pull:") {
			limit := int(sym[5] - '0')
			tw := time.Now()
			c13WaitFeed(e)
			r.Add("ms_waiting_for_feed", time.Since(tw).Milliseconds())
			tp := time.Now()
			defer func() { r.Add("ms_in_pulls", time.Since(tp).Milliseconds()) }()
			for fp, d := range run.pull(limit) {
				r.Violate(fp, d, c13Case{Hist: hist[:i+1]})
			}
			r.Add("pulls", 1)
			continue
		}
		tws := time.Now()
		visBefore := run.visible()
		err := run.world(sym)
		if run.lostBy == nil {
			run.lostBy, run.rewrittenLost, run.regrantSince, run.roleDelSince = map[string]string{}, map[string]bool{}, map[string]bool{}, map[string]bool{}
		}
		if sym == "r:del" || sym == "r:del*" {
			for id := range run.lostBy {
				run.roleDelSince[id] = true
			}
		}
		if sym == "u:A" || sym == "u+r" || sym == "r:B" || strings.HasPrefix(sym, "g:u") || strings.HasPrefix(sym, "g:r") {
			for id := range run.lostBy {
				run.regrantSince[id] = true
			}
		}
		for fp, d := range run.innerViol {
			r.Violate(fp, d, c13Case{Hist: hist[:i+1]})
		}
		run.innerViol = nil
		visAfter := run.visible()
		for id := range visBefore {
			if _, still := visAfter[id]; !still {
				run.lostBy[id] = sym
				run.rewrittenLost[id] = false
				run.regrantSince[id] = false
				run.roleDelSince[id] = false
			}
		}
		for id := range run.innerVisible {
			if _, still := visAfter[id]; !still {
				run.lostBy[id] = sym
				run.rewrittenLost[id] = false
				run.regrantSince[id] = false
			}
		}
		run.innerVisible = nil
		for id := range visAfter {
			delete(run.lostBy, id)
			delete(run.rewrittenLost, id)
			delete(run.regrantSince, id)
		}
		if strings.HasPrefix(sym, "d") {
			if id := strings.TrimSuffix(sym[:strings.Index(sym, ":")], "~"); run.lostBy[id] != "" && run.lostBy[id] != sym {
				run.rewrittenLost[id] = true
			}
		}
		r.Add("ms_in_world_steps", time.Since(tws).Milliseconds())
		// Let the mutation feed deliver this step before the next one: a principal document rewritten before its previous
		// mutation was delivered loses that mutation's sequence on the feed (the cache then waits for its pending
		// timeout); that is the subject of C07/C08, not of this property.
		c13WaitFeed(e)
		if err != nil {
			r.Violate("C13/step-failed/"+strings.SplitN(sym, ":", 2)[0], fmt.Sprintf("step %q of %v failed: %v", sym, hist, err), c13Case{Hist: hist[:i+1]})
			return
		}
	}
}

func TestVerifC13(t *testing.T) {
	r := vreport.Begin("C13")
	defer r.Finish(t)
	r.Rule("every sequence of up to D world events from a 16-symbol alphabet (document channel moves, two-channel document, channel removal, delete; admin channels of the user; role assignment, role channels, role deletion; granting document for the user / for the role, grant removal, granting-document delete) x every placement of pulls after events (the last event is always followed by a pull) x paging limit {0,1,2}; plus, from a populated world (user with channel A directly and B through a role, six documents in A, one in A and B, client caught up; query pagination 2), every sequence of D-1 events x pull placements x limit {0,2,5}; plus open (continuous) pulls: from four base histories the client opens one pull and keeps it open through every sequence of D-1 further events, judged after each once a marker document has come through the feed; the client resumes from the last position it received with revocations on; non-trivial = distinct (world sequence, pull placement, limit)")
	r.Assume("the client follows the replication protocol's rules: it drops a document on deleted / revoked / removed-from-all-visible-channels, otherwise fetches the announced revision as the user; world events and pulls interleave at operation granularity with the mutation feed drained before each pull")
	e := &c13Env{}
	fresh := func() {
		if e.db != nil {
			e.db.Close(e.ctx)
		}
		co := DefaultCacheOptions()
		co.ChannelQueryLimit = 2 // channel queries (back-fill, revocation) page by 2
		if e.tb != nil {
			e.tb.Close(e.ctx)
		}
		tb := base.GetTestBucket(t)
		vb := vstore.Wrap(tb.Bucket)
		tb.Bucket = vb
		e.tb, e.vb = tb, vb
		db, ctx := SetupTestDBForBucketWithOptions(t, tb, DatabaseContextOptions{CacheOptions: &co, Scopes: GetScopesOptionsDefaultCollectionOnly(t), BcryptCost: 4, ClientPartitionWindow: base.DefaultClientPartitionWindow, QueryPaginationLimit: 2})
		coll, ctx := GetSingleDatabaseCollectionWithUser(ctx, t, db)
		if _, err := coll.UpdateSyncFun(ctx, c13SyncFn); err != nil {
			t.Fatalf("sync fn: %v", err)
		}
		e.db, e.ctx, e.coll = db, ctx, coll
	}
	fresh()
	defer func() {
		e.db.Close(e.ctx)
		if e.tb != nil {
			e.tb.Close(e.ctx)
		}
	}()
	var rc c13Case
	if r.Replaying(&rc) {
		e.debug = true
		e.run(t, r, rc.Hist)
		return
	}
	core := []string{"d1:A", "d1:B", "d1:del", "u:A", "u:none", "u+r", "r:B", "r:del", "g:u:A", "g:del"}
	type space struct {
		alphabet []string
		depth    int
		limits   []int
	}
	// document writes that arrive as replicated version-vector revisions, with the events that decide what the user sees
	vvSpace := []string{"d1:A", "d1~:A", "d1~:B", "d1~:del", "u:A", "u:none", "u+r", "r:B"}
	spaces := []space{{c13World, 3, []int{0, 1, 2}}, {vvSpace, 3, []int{0, 2}}}
	if r.Thorough() {
		spaces = []space{{c13World, 3, []int{0, 1, 2}}, {core, 4, []int{0, 1, 2}}, {c13World, 4, []int{0, 1}}, {vvSpace, 4, []int{0, 2}}}
	}
	idx := 0
	for si, sp := range spaces {
		r.Note(fmt.Sprintf("space_%d", si), fmt.Sprintf("alphabet=%d symbols, world depth=%d, limits=%v", len(sp.alphabet), sp.depth, sp.limits))
		D := sp.depth
		var rec func(w []string)
		rec = func(w []string) {
			if len(w) == D {
				// pull placements: after each of the first D-1 events optionally, after the last always
				for mask := 0; mask < 1<<(D-1); mask++ {
					for _, limit := range sp.limits {
						idx++
						if !r.Mine(idx) || r.Expired() {
							continue
						}
						var hist []string
						for i, s := range w {
							hist = append(hist, s)
							if i == D-1 || mask&(1<<i) != 0 {
								hist = append(hist, fmt.Sprintf("pull:%d", limit))
							}
						}
						if e.n%100 == 99 {
							fresh() // bound the size of the bucket: view-backed queries slow down with the number of documents
						}
						e.run(t, r, hist)
						r.Add("evaluations", 1)
						r.Add("distinct_nontrivial", 1)
						if idx%1999 == 0 {
							r.Sample(map[string]any{"history": hist})
						}
					}
				}
				return
			}
			for _, s := range sp.alphabet {
				rec(append(append([]string{}, w...), s))
			}
		}
		if os.Getenv("VERIF_C13_SECTION") == "" {
			rec(nil)
		}
	}
	// histories that continue from a populated world: the user has channel A directly and B through a role, six documents
	// are in A (so that revocation and back-fill queries span several pages of 2) and one in both; the client has pulled
	base13 := []string{"u+r", "r:B", "u:A", "d1:A", "d2:AB", "d3:A", "d4:A", "d5:A", "d6:A", "d7:A", "pull:0"}
	D2 := 2
	if r.Thorough() {
		D2 = 3
	}
	r.Note("depth_from_populated_world", D2)
	var rec2 func(w []string)
	rec2 = func(w []string) {
		if len(w) == D2 {
			for mask := 0; mask < 1<<(D2-1); mask++ {
				for _, limit := range []int{0, 2, 5} {
					idx++
					if !r.Mine(idx) || r.Expired() {
						continue
					}
					hist := append([]string{}, base13...)
					for i, s := range w {
						hist = append(hist, s)
						if i == D2-1 || mask&(1<<i) != 0 {
							hist = append(hist, fmt.Sprintf("pull:%d", limit))
						}
					}
					if e.n%100 == 99 {
						fresh()
					}
					e.run(t, r, hist)
					r.Add("evaluations", 1)
					r.Add("distinct_nontrivial", 1)
				}
			}
			return
		}
		for _, s := range c13World {
			rec2(append(append([]string{}, w...), s))
		}
	}
	if os.Getenv("VERIF_C13_SECTION") == "" {
		rec2(nil)
	}
	// open (continuous) pulls: the client opens one pull after a base history and keeps it open; after every further
	// event it waits until the feed has caught up (marker document) and the replica is judged
	openBases := [][]string{
		{"u:A", "d1:A", "d2:AB", "pull:0", "open"},
		{"u+r", "r:B", "u:A", "d1:A", "d2:AB", "pull:0", "open"},
		{"d1:A", "d2:AB", "open"},
		{"u:A", "d1:B", "d2:AB", "pull:0", "open"}, // a document in a channel the user does not have yet
	}
	D3 := 2
	if r.Thorough() {
		D3 = 3
	}
	r.Note("open_pull_depth", D3)
	for _, ob := range openBases {
		var rec3 func(w []string)
		rec3 = func(w []string) {
			if len(w) == D3 {
				idx++
				if !r.Mine(idx) || r.Expired() {
					return
				}
				hist := append([]string{}, ob...)
				for _, s := range w {
					hist = append(hist, s, "pull:0")
				}
				if f := os.Getenv("VERIF_C13_FILTER"); f != "" && !strings.Contains(strings.Join(hist, ","), f) {
					return
				}
				if e.n%100 == 99 {
					fresh()
				}
				e.run(t, r, hist)
				r.Add("evaluations", 1)
				r.Add("open_pull_histories", 1)
				r.Add("distinct_nontrivial", 1)
				return
			}
			for _, s := range c13World {
				rec3(append(append([]string{}, w...), s))
			}
		}
		rec3(nil)
	}
	// the role is deleted while it is being given a further channel (and the client pulls in between), after the
	// populated world plus one document in that channel
	for _, tail := range [][]string{{"r:del*"}, {"r:del*", "d8:C"}, {"d2:AB", "r:del*"}, {"r:del*", "u:none"}} {
		for _, limit := range []int{0, 2, 5} {
			idx++
			if !r.Mine(idx) || r.Expired() {
				continue
			}
			hist := append(append([]string{}, base13...), "d8:C", "pull:0")
			for _, s := range tail {
				hist = append(hist, s, fmt.Sprintf("pull:%d", limit))
			}
			if e.n%100 == 99 {
				fresh()
			}
			e.run(t, r, hist)
			r.Add("evaluations", 1)
			r.Add("distinct_nontrivial", 1)
		}
	}
	if r.Expired() {
		r.Cap("time budget reached before all histories were explored")
	}
	_ = sort.Strings
}
