//go:build verif

package db

import (
	"context"
	"fmt"
	"os"
	"sort"
	"strings"
	"testing"
	"time"

	"github.com/couchbase/sync_gateway/auth"
	"github.com/couchbase/sync_gateway/base"
	"github.com/couchbase/sync_gateway/verifshim/vreport"
)

// C03 — effective access equals what admin grants and current documents confer.
// E3: every history up to depth D over admin principal edits, role create/delete, and writes / updates /
// deletes / conflicting revisions of granting documents, on a real database; after EVERY step every
// principal's effective channels and roles are compared with a reference model.

const c03SyncFn = `function(doc, oldDoc) {
	channel(doc.channels);
	if (doc.u) { access(doc.u, doc.c); }
	if (doc.ru) { role(doc.ru, "role:" + doc.r); }
}`

var c03Alphabet = []string{
	"u1-adm-A", "u1-adm-none", "u1-role-r1", "u1-role-none", "r1-adm-B", "r1-adm-none",
	"create-u2", "del-r1", "create-r1",
	"g1:u1:C1", "g1:role-r1:C2", "g1:u1-gets-r1", "g1:u2:C3", "g1:none", "del-g1", "g1-conflict:u1:C4",
	"g2:u1:C1", "del-g2",
	// the granting document written by a revision that arrives from another Sync Gateway (version-vector protocol)
	"g1~vv:u1:C5", "g1~vv:none",
	// ... and by one that conflicts with the local winner and wins (the local winner is tombstoned)
	"g1~vvc:u2:C6",
}

type c03Grant struct {
	user string // principal access name: "u1" or "role:r1"
	ch   string
	ru   string // role(ru, r)
	r    string
}

type c03DocModel struct {
	leaves map[string]c03LeafModel // rev -> leaf
}

type c03LeafModel struct {
	deleted bool
	grant   c03Grant
}

type c03World struct {
	t        testing.TB
	db       *Database
	ctx      context.Context
	coll     *DatabaseCollectionWithUser
	sfx      string
	userAdm  map[string]map[string]bool // user -> admin channels
	userRole map[string]map[string]bool // user -> admin roles
	roleAdm  map[string]map[string]bool // role -> admin channels
	roleLive map[string]bool
	users    map[string]bool
	docs     map[string]*c03DocModel
	curRev   map[string]string
	// home collection of the granting documents and admin channel assignments; grants must not show in the bystanders
	scope, collName string
	bystanders      [][2]string
	tag             string // fingerprint prefix for non-default layouts
	conflictN       int
}

func (w *c03World) admin(chans base.Set) *auth.PrincipalConfig {
	cfg := &auth.PrincipalConfig{}
	if w.scope == "" || base.IsDefaultCollection(w.scope, w.collName) {
		cfg.ExplicitChannels = chans
	} else {
		cfg.SetExplicitChannels(w.scope, w.collName, chans.ToArray()...)
	}
	return cfg
}

func (w *c03World) home() (string, string) {
	if w.scope == "" {
		return base.DefaultScope, base.DefaultCollection
	}
	return w.scope, w.collName
}

func (w *c03World) n(name string) string { return name + w.sfx }

func (w *c03World) accessName(p string) string {
	if strings.HasPrefix(p, "role-") {
		return "role:" + w.n(strings.TrimPrefix(p, "role-"))
	}
	return w.n(p)
}

func c03Winner(leaves map[string]c03LeafModel) (string, bool) {
	best := ""
	for rev, l := range leaves {
		if best == "" {
			best = rev
			continue
		}
		b := leaves[best]
		if l.deleted != b.deleted {
			if !l.deleted {
				best = rev
			}
			continue
		}
		if compareRevIDs(context.Background(), rev, best) > 0 {
			best = rev
		}
	}
	return best, best != ""
}

func (w *c03World) apply(sym string) error {
	ctx := w.ctx
	setUser := func(u string, cfg *auth.PrincipalConfig) error {
		cfg.Name = base.Ptr(w.n(u))
		_, _, err := w.db.UpdatePrincipal(ctx, cfg, true, true)
		return err
	}
	conflictTag := "conflict"
	viaVV, viaVVConflict := false, false
	putDoc := func(id string, body Body, g c03Grant, conflict bool) error {
		docID := w.n(id)
		m := w.docs[id]
		if m == nil {
			m = &c03DocModel{leaves: map[string]c03LeafModel{}}
			w.docs[id] = m
		}
		if conflict {
			if w.curRev[id] == "" {
				return nil // nothing to conflict with: no-op
			}
			// a second branch from a fictitious common root is not possible; branch from the first generation
			doc, err := w.coll.GetDocument(ctx, docID, DocUnmarshalAll)
			if err != nil {
				return err
			}
			root := ""
			for rev, ri := range doc.History {
				if ri.Parent == "" {
					root = rev
				}
			}
			w.conflictN++
			newRev := fmt.Sprintf("2-%s%d", conflictTag, w.conflictN) // never the id of an earlier conflicting revision of this history
			_, _, err = w.coll.PutExistingRevWithBody(ctx, docID, body, []string{newRev, root}, false, ExistingVersionWithUpdateToHLV)
			if err != nil {
				return err
			}
			if _, wasLeaf := m.leaves[root]; wasLeaf {
				delete(m.leaves, root)
			}
			m.leaves[newRev] = c03LeafModel{grant: g}
			return nil
		}
		winner, _ := c03Winner(m.leaves)
		if viaVVConflict {
			// a revision from another Sync Gateway that conflicts with the local winner (its vector has not seen it, its
			// history branches off the winner's parent) and is newer: the default resolver lets it win, the local winner
			// is tombstoned and the document's grants must become those of the incoming revision
			if winner == "" || m.leaves[winner].deleted {
				return nil
			}
			cur, err := w.coll.GetDocument(ctx, docID, DocUnmarshalSync)
			if err != nil {
				return err
			}
			parent := cur.History[winner].Parent
			if parent == "" || cur.HLV == nil {
				return nil // a sibling of a first-generation revision would be a second root
			}
			w.conflictN++
			g0, _ := ParseRevID(ctx, winner)
			rev := fmt.Sprintf("%d-vvc%d", g0, w.conflictN)
			var history []string
			for r := parent; r != ""; r = cur.History[r].Parent {
				history = append(history, r)
			}
			history = append([]string{rev}, history...)
			incoming := &HybridLogicalVector{SourceID: "cmVtb3RlMg", Version: cur.HLV.Version + 1000000000000, PreviousVersions: HLVVersions{}}
			newDoc := &Document{ID: docID, RevID: rev, HLV: incoming}
			newDoc.UpdateBody(body)
			if _, _, _, err := w.coll.PutExistingCurrentVersion(ctx, PutDocOptions{NewDoc: newDoc, RevTreeHistory: history, NewDocHLV: incoming, ISGRWrite: true,
				ConflictResolver: NewConflictResolver(DefaultLWWConflictResolutionType, nil)}); err != nil {
				return err
			}
			after, err := w.coll.GetDocument(ctx, docID, DocUnmarshalSync)
			if err != nil {
				return err
			}
			delete(m.leaves, winner)
			for r, ri := range after.History {
				if ri.Parent == winner && ri.Deleted {
					m.leaves[r] = c03LeafModel{deleted: true}
				}
			}
			m.leaves[rev] = c03LeafModel{grant: g}
			if win2, _ := c03Winner(m.leaves); win2 != "" {
				w.curRev[id] = win2
			}
			return nil
		}
		if viaVV {
			// a non-conflicting revision from another Sync Gateway: its vector dominates the local one, its history
			// continues the local winning revision
			w.conflictN++
			gen := 1
			history := []string{}
			incoming := &HybridLogicalVector{SourceID: "cmVtb3Rl", Version: uint64(time.Now().UnixNano()) + 1000000000, PreviousVersions: HLVVersions{}}
			if winner != "" {
				cur, err := w.coll.GetDocument(ctx, docID, DocUnmarshalSync)
				if err != nil {
					return err
				}
				g, _ := ParseRevID(ctx, winner)
				gen = g + 1
				history = append(history, winner)
				if cur.HLV != nil {
					for src, v := range cur.HLV.PreviousVersions {
						incoming.PreviousVersions[src] = v
					}
					if cur.HLV.SourceID != incoming.SourceID {
						incoming.PreviousVersions[cur.HLV.SourceID] = cur.HLV.Version
					}
					if cur.HLV.Version >= incoming.Version {
						incoming.Version = cur.HLV.Version + 1000
					}
					delete(incoming.PreviousVersions, incoming.SourceID)
				}
			}
			rev := fmt.Sprintf("%d-vv%d", gen, w.conflictN)
			history = append([]string{rev}, history...)
			newDoc := &Document{ID: docID, RevID: rev, HLV: incoming}
			newDoc.UpdateBody(body)
			if _, _, _, err := w.coll.PutExistingCurrentVersion(ctx, PutDocOptions{NewDoc: newDoc, RevTreeHistory: history, NewDocHLV: incoming, ISGRWrite: true,
				ConflictResolver: NewConflictResolver(DefaultLWWConflictResolutionType, nil)}); err != nil {
				return err
			}
			if winner != "" {
				delete(m.leaves, winner)
			}
			m.leaves[rev] = c03LeafModel{grant: g}
			w.curRev[id] = rev
			return nil
		}
		if winner != "" {
			body[BodyRev] = winner
		}
		isDelete := body[BodyDeleted] == true // Put removes _deleted from the map it is given
		rev, _, err := w.coll.Put(ctx, docID, body)
		if err != nil {
			return err
		}
		if winner != "" {
			delete(m.leaves, winner)
		}
		m.leaves[rev] = c03LeafModel{grant: g, deleted: isDelete}
		w.curRev[id] = rev
		return nil
	}
	switch sym {
	case "u1-adm-A":
		w.userAdm["u1"] = map[string]bool{"A": true}
		return setUser("u1", w.admin(base.SetOf("A")))
	case "u1-adm-none":
		w.userAdm["u1"] = map[string]bool{}
		return setUser("u1", w.admin(base.Set{}))
	case "u1-role-r1":
		w.userRole["u1"] = map[string]bool{"r1": true}
		return setUser("u1", &auth.PrincipalConfig{ExplicitRoleNames: base.SetOf(w.n("r1"))})
	case "u1-role-none":
		w.userRole["u1"] = map[string]bool{}
		return setUser("u1", &auth.PrincipalConfig{ExplicitRoleNames: base.Set{}})
	case "r1-adm-B", "r1-adm-none", "create-r1":
		chans := base.Set{}
		if sym == "r1-adm-B" {
			chans = base.SetOf("B")
		}
		if sym == "create-r1" {
			if w.roleLive["r1"] {
				return nil
			}
			for c := range w.roleAdm["r1"] {
				chans.Add(c)
			}
		} else {
			w.roleAdm["r1"] = map[string]bool{}
			for c := range chans {
				w.roleAdm["r1"][c] = true
			}
		}
		w.roleLive["r1"] = true
		rcfg := w.admin(chans)
		rcfg.Name = base.Ptr(w.n("r1"))
		_, _, err := w.db.UpdatePrincipal(ctx, rcfg, false, true)
		return err
	case "del-r1":
		if !w.roleLive["r1"] {
			return nil
		}
		w.roleLive["r1"] = false
		return w.db.DeleteRole(ctx, w.n("r1"), false)
	case "create-u2":
		if w.users["u2"] {
			return nil
		}
		w.users["u2"] = true
		w.userAdm["u2"], w.userRole["u2"] = map[string]bool{}, map[string]bool{}
		_, _, err := w.db.UpdatePrincipal(ctx, &auth.PrincipalConfig{Name: base.Ptr(w.n("u2")), Password: base.Ptr("letmein")}, true, false)
		return err
	case "del-g1", "del-g2":
		id := strings.TrimPrefix(sym, "del-")
		m := w.docs[id]
		if m == nil {
			return nil
		}
		winner, ok := c03Winner(m.leaves)
		if !ok || m.leaves[winner].deleted {
			return nil
		}
		return putDoc(id, Body{BodyDeleted: true}, c03Grant{}, false)
	}
	// granting document writes: "<doc>[-conflict]:<grantee>:<channel>" or "<doc>:u1-gets-r1" or "<doc>:none"
	parts := strings.Split(sym, ":")
	if strings.HasSuffix(parts[0], "~vvc") {
		parts[0], viaVVConflict = strings.TrimSuffix(parts[0], "~vvc"), true
	} else if strings.HasSuffix(parts[0], "~vv") {
		parts[0], viaVV = strings.TrimSuffix(parts[0], "~vv"), true
	}
	id := parts[0]
	conflict := false
	for suffix, tag := range map[string]string{"-conflict": "conflict", "-conflicthi": "zzconflict", "-conflictlo": "00conflict"} {
		if strings.HasSuffix(parts[0], suffix) {
			// the digest decides which branch wins: "zz..." beats every hexadecimal digest, "00..." loses to practically all
			id, conflict, conflictTag = strings.TrimSuffix(parts[0], suffix), true, tag
		}
	}
	body := Body{"channels": []string{"D"}}
	g := c03Grant{}
	switch {
	case parts[1] == "none":
	case parts[1] == "u1-gets-r1":
		g = c03Grant{ru: "u1", r: "r1"}
		body["ru"] = w.n("u1")
		body["r"] = w.n("r1")
	default:
		g = c03Grant{user: parts[1], ch: parts[2]}
		body["u"] = w.accessName(parts[1])
		body["c"] = parts[2]
	}
	if m := w.docs[id]; m != nil && !conflict {
		// a tombstoned document is resurrected by a PUT on top of the tombstone
		_ = m
	}
	return putDoc(id, body, g, conflict)
}

func (w *c03World) modelRoleChannels(r string) map[string]bool {
	out := map[string]bool{"!": true}
	for c := range w.roleAdm[r] {
		out[c] = true
	}
	for _, m := range w.docs {
		winner, ok := c03Winner(m.leaves)
		if !ok || m.leaves[winner].deleted {
			continue
		}
		g := m.leaves[winner].grant
		if g.user == "role-"+r {
			out[g.ch] = true
		}
	}
	return out
}

func (w *c03World) modelUser(u string) (chans map[string]bool, roles map[string]bool) {
	chans = map[string]bool{"!": true}
	roles = map[string]bool{}
	for c := range w.userAdm[u] {
		chans[c] = true
	}
	for r := range w.userRole[u] {
		roles[r] = true
	}
	for _, m := range w.docs {
		winner, ok := c03Winner(m.leaves)
		if !ok || m.leaves[winner].deleted {
			continue
		}
		g := m.leaves[winner].grant
		if g.user == u {
			chans[g.ch] = true
		}
		if g.ru == u {
			roles[g.r] = true
		}
	}
	for r := range roles {
		if w.roleLive[r] {
			for c := range w.modelRoleChannels(r) {
				chans[c] = true
			}
		}
	}
	return
}

func c03Keys(m map[string]bool) string {
	var l []string
	for k := range m {
		l = append(l, k)
	}
	sort.Strings(l)
	return strings.Join(l, ",")
}

// check compares every principal with the model; returns fingerprint->detail
func (w *c03World) check(step string) map[string]string {
	viol := map[string]string{}
	if os.Getenv("VERIF_DEBUG") != "" {
		for id, m := range w.docs {
			doc, err := w.coll.GetDocument(w.ctx, w.n(id), DocUnmarshalAll)
			if err != nil {
				fmt.Printf("DEBUG %s: %v\n", id, err)
				continue
			}
			fmt.Printf("DEBUG after %s: doc %s model leaves %+v | real current=%s deleted=%v leaves=%v access=%v roleAccess=%v\n", step, id, m.leaves, doc.GetRevTreeID(), doc.IsDeleted(), doc.History.GetLeaves(), doc.Access, doc.RoleAccess)
		}
	}
	a := w.db.Authenticator(w.ctx)
	kind := step
	if i := strings.Index(step, ":"); i > 0 && strings.HasPrefix(step, "g") {
		kind = "doc-write"
	}
	for u := range w.users {
		usr, err := a.GetUser(w.n(u))
		if err != nil || usr == nil {
			viol["C03/harness/get-user"] = fmt.Sprintf("%s: %v", u, err)
			continue
		}
		hs, hc := w.home()
		set, err := usr.InheritedCollectionChannels(hs, hc)
		if err != nil {
			viol["C03/harness/inherited-channels"] = err.Error()
			continue
		}
		for _, by := range w.bystanders {
			other, err := usr.InheritedCollectionChannels(by[0], by[1])
			if err != nil {
				viol["C03/harness/inherited-channels"] = err.Error()
				continue
			}
			if k := c03Keys(map[string]bool(nil)); len(other) != 1 || !other.Contains("!") {
				_ = k
				viol["C03/"+w.tag+"grant-leaked-into-another-collection/after-"+kind] = fmt.Sprintf("user %s has channels %v in collection %s.%s although every grant was made in %s.%s", u, other.AllKeys(), by[0], by[1], hs, hc)
			}
		}
		got := map[string]bool{}
		for c := range set {
			got[c] = true
		}
		gotRoles := map[string]bool{}
		for r := range usr.RoleNames() {
			gotRoles[strings.TrimSuffix(r, w.sfx)] = true
		}
		wantCh, wantRoles := w.modelUser(u)
		if c03Keys(got) != c03Keys(wantCh) {
			dir := "missing-channel"
			for c := range got {
				if !wantCh[c] {
					dir = "extra-channel"
				}
			}
			viol["C03/"+w.tag+"user-channels/"+dir+"/after-"+kind] = fmt.Sprintf("user %s has effective channels {%s}, expected {%s}", u, c03Keys(got), c03Keys(wantCh))
		}
		if c03Keys(gotRoles) != c03Keys(wantRoles) {
			viol["C03/"+w.tag+"user-roles/after-"+kind] = fmt.Sprintf("user %s has roles {%s}, expected {%s}", u, c03Keys(gotRoles), c03Keys(wantRoles))
		}
	}
	if w.roleLive["r1"] {
		role, err := a.GetRole(w.n("r1"))
		if err != nil || role == nil {
			viol["C03/role-missing/after-"+kind] = fmt.Sprintf("role r1 should exist: %v", err)
		} else {
			got := map[string]bool{}
			rs, rcn := w.home()
			for c := range role.CollectionChannels(rs, rcn) {
				got[c] = true
			}
			want := w.modelRoleChannels("r1")
			if c03Keys(got) != c03Keys(want) {
				viol["C03/"+w.tag+"role-channels/after-"+kind] = fmt.Sprintf("role r1 has channels {%s}, expected {%s}", c03Keys(got), c03Keys(want))
			}
		}
	}
	return viol
}

type c03Case struct {
	Hist   []string `json:"hist"`
	Layout string   `json:"layout,omitempty"`
}

type c03Env struct {
	db   *Database
	ctx  context.Context
	coll *DatabaseCollectionWithUser
	n    int
	// non-default layouts
	layout          string
	scope, collName string
	bystanders      [][2]string
}

func (e *c03Env) run(t testing.TB, r *vreport.Report, hist []string) {
	e.n++
	w := &c03World{t: t, db: e.db, ctx: e.ctx, coll: e.coll, sfx: fmt.Sprintf("_%d", e.n),
		userAdm: map[string]map[string]bool{"u1": {}}, userRole: map[string]map[string]bool{"u1": {}}, roleAdm: map[string]map[string]bool{"r1": {}},
		roleLive: map[string]bool{"r1": true}, users: map[string]bool{"u1": true}, docs: map[string]*c03DocModel{}, curRev: map[string]string{},
		scope: e.scope, collName: e.collName, bystanders: e.bystanders}
	if e.layout != "" {
		w.tag = "layout-" + e.layout + "/"
	}
	// initial principals: u1 and r1 exist with no grants
	if _, _, err := e.db.UpdatePrincipal(e.ctx, &auth.PrincipalConfig{Name: base.Ptr(w.n("r1"))}, false, false); err != nil {
		t.Fatalf("setup role: %v", err)
	}
	if _, _, err := e.db.UpdatePrincipal(e.ctx, &auth.PrincipalConfig{Name: base.Ptr(w.n("u1")), Password: base.Ptr("letmein")}, true, false); err != nil {
		t.Fatalf("setup user: %v", err)
	}
	for i, sym := range hist {
		if err := w.apply(sym); err != nil {
			r.Violate("C03/step-failed/"+strings.SplitN(sym, ":", 2)[0], fmt.Sprintf("step %d %q of %v failed: %v", i, sym, hist, err), c03Case{Hist: hist[:i+1], Layout: e.layout})
			return
		}
		for fp, d := range w.check(sym) {
			r.Violate(fp, fmt.Sprintf("%s after step %d of history %v (layout %q)", d, i, hist, e.layout), c03Case{Hist: hist[:i+1], Layout: e.layout})
		}
		r.Add("step_comparisons", 1)
	}
}

func TestVerifC03(t *testing.T) {
	r := vreport.Begin("C03")
	defer r.Finish(t)
	r.Rule("every history up to depth D over an 18-symbol alphabet (admin channel / role assignment of a user, role channels, role delete / re-create, user created late, granting document write with access() for a user / a role, role() grant, grant to a not-yet-created user, grant removal, delete, conflicting revision, second document granting the same channel) on a real database, from the empty database and (depth D-1) from four bases in which a granting document has two live conflicting leaves carrying different kinds of grant; after every step every principal's effective channels and role names are compared with the model; non-trivial = distinct history")
	r.Assume("default sync-function semantics: grants come from the current winning revision of live documents; one database is reused with per-history principal and document names")
	db, ctx := SetupTestDBWithOptions(t, DatabaseContextOptions{AllowConflicts: base.Ptr(true), CacheOptions: base.Ptr(DefaultCacheOptions()), Scopes: GetScopesOptionsDefaultCollectionOnly(t), BcryptCost: 4})
	defer db.Close(ctx)
	coll, ctx := GetSingleDatabaseCollectionWithUser(ctx, t, db)
	if _, err := coll.UpdateSyncFun(ctx, c03SyncFn); err != nil {
		t.Fatalf("sync fn: %v", err)
	}
	e := &c03Env{db: db, ctx: ctx, coll: coll}
	var rc c03Case
	if r.Replaying(&rc) {
		e.run(t, r, rc.Hist)
		return
	}
	D := 3
	if r.Thorough() {
		D = 4
	}
	r.Note("depth", D)
	idx := 0
	var rec func(h []string)
	rec = func(h []string) {
		if len(h) > 0 {
			idx++
			if r.Mine(idx) {
				if r.Expired() {
					r.Cap("time budget reached")
					return
				}
				if len(h) == D || true {
					// every prefix is itself a history; checking after every step makes re-running prefixes redundant,
					// so only maximal histories are executed
				}
			}
		}
		if len(h) == D {
			idx++
			if r.Mine(idx) && !r.Expired() {
				e.run(t, r, h)
				r.Add("evaluations", 1)
				r.Add("distinct_nontrivial", 1)
				if idx%997 == 0 {
					r.Sample(map[string]any{"history": append([]string{}, h...)})
				}
			}
			return
		}
		for _, s := range c03Alphabet {
			rec(append(append([]string{}, h...), s))
		}
	}
	rec(nil)
	// histories that start from a document with two live conflicting leaves, the losing one carrying a grant of a
	// different kind than the winning one (which of the two wins depends on the revision digests, so both
	// assignments are used); a state the depth bound does not reach from the empty database
	bases := [][]string{
		{"r1-adm-B", "g1:none", "g1:u1:C1", "g1-conflictlo:u1-gets-r1"},
		{"r1-adm-B", "g1:none", "g1:u1-gets-r1", "g1-conflicthi:u1:C4"},
		{"r1-adm-B", "g1:none", "g1:role-r1:C2", "g1-conflicthi:u1:C4"},
		{"r1-adm-B", "g1:none", "g1:u1:C4", "g1-conflictlo:role-r1:C2"},
	}
	D2 := D - 1
	r.Note("depth_from_conflicted_bases", D2)
	for _, base := range bases {
		var rec2 func(h []string)
		rec2 = func(h []string) {
			if len(h) == D2 {
				idx++
				if r.Mine(idx) && !r.Expired() {
					e.run(t, r, append(append([]string{}, base...), h...))
					r.Add("evaluations", 1)
					r.Add("distinct_nontrivial", 1)
				}
				return
			}
			for _, s := range c03Alphabet {
				rec2(append(append([]string{}, h...), s))
			}
		}
		rec2(nil)
	}
	if r.Expired() {
		r.Cap("time budget reached before all histories were explored")
	}
}

// ---- collection layouts: the same enumeration where the granting documents and admin assignments live in a named
// collection (named scope; or the _default scope next to the default collection) or in the default collection next to
// a named one; every grant must take effect in its own collection and in no other.

const c03NamedInDefaultScope = "verifcoll"

func c03LayoutEnv(t *testing.T, layout string) (*c03Env, func()) {
	ctx := base.TestCtx(t)
	tb := base.GetTestBucket(t)
	syncFn := c03SyncFn
	var scopes ScopesOptions
	var home [2]string
	var bystanders [][2]string
	switch layout {
	case "named-scope":
		scopes = GetScopesOptions(t, tb, 2)
		var names [][2]string
		for sn, sc := range scopes {
			for cn := range sc.Collections {
				names = append(names, [2]string{sn, cn})
			}
		}
		sort.Slice(names, func(i, j int) bool { return names[i][1] < names[j][1] })
		home, bystanders = names[0], names[1:]
	case "named-in-default-scope", "default-next-to-named":
		dsName := base.ScopeAndCollectionName{Scope: base.DefaultScope, Collection: c03NamedInDefaultScope}
		if err := tb.CreateDataStore(ctx, dsName); err != nil {
			t.Fatalf("create datastore: %v", err)
		}
		nds, err := tb.NamedDataStore(ctx, dsName)
		if err != nil {
			t.Fatalf("named datastore: %v", err)
		}
		if err := InitializeViews(ctx, nds); err != nil {
			t.Fatalf("views: %v", err)
		}
		scopes = ScopesOptions{base.DefaultScope: ScopeOptions{Collections: map[string]CollectionOptions{base.DefaultCollection: {}, c03NamedInDefaultScope: {}}}}
		if layout == "named-in-default-scope" {
			home, bystanders = [2]string{base.DefaultScope, c03NamedInDefaultScope}, [][2]string{{base.DefaultScope, base.DefaultCollection}}
		} else {
			home, bystanders = [2]string{base.DefaultScope, base.DefaultCollection}, [][2]string{{base.DefaultScope, c03NamedInDefaultScope}}
		}
	}
	for sn, sc := range scopes {
		for cn := range sc.Collections {
			sc.Collections[cn] = CollectionOptions{Sync: &syncFn}
		}
		scopes[sn] = sc
	}
	database, ctx := SetupTestDBForBucketWithOptions(t, tb.NoCloseClone(), DatabaseContextOptions{AllowConflicts: base.Ptr(true), CacheOptions: base.Ptr(DefaultCacheOptions()), Scopes: scopes, BcryptCost: 4})
	coll, err := database.GetDatabaseCollectionWithUser(home[0], home[1])
	if err != nil {
		t.Fatalf("collection: %v", err)
	}
	cctx := coll.AddCollectionContext(ctx)
	e := &c03Env{db: database, ctx: cctx, coll: coll, layout: layout, scope: home[0], collName: home[1], bystanders: bystanders}
	return e, func() {
		database.Close(ctx)
		if layout != "named-scope" {
			_ = tb.DropDataStore(ctx, base.ScopeAndCollectionName{Scope: base.DefaultScope, Collection: c03NamedInDefaultScope})
		}
		tb.Close(ctx)
	}
}

func TestVerifC03Layouts(t *testing.T) {
	r := vreport.Begin("C03")
	defer r.Finish(t)
	r.Rule("the history enumeration of part a (depth D-1 from the empty database, depth D-2 from the conflicted bases) for three collection layouts: granting documents and admin assignments in a named collection of a named scope (second collection as bystander), in a named collection of the _default scope (default collection as bystander), in the default collection (named collection of the _default scope as bystander); effective access judged in the home collection, and every bystander collection must show no grant; non-trivial = distinct (layout, history)")
	r.Assume("as part a")
	var rc c03Case
	layouts := []string{"named-scope", "named-in-default-scope", "default-next-to-named"}
	if r.Replaying(&rc) {
		e, closeF := c03LayoutEnv(t, rc.Layout)
		defer closeF()
		e.run(t, r, rc.Hist)
		return
	}
	D := 2
	if r.Thorough() {
		D = 3
	}
	r.Note("depth", D)
	bases := [][]string{
		nil,
		{"r1-adm-B", "g1:none", "g1:u1:C1", "g1-conflictlo:u1-gets-r1"},
		{"r1-adm-B", "g1:none", "g1:u1-gets-r1", "g1-conflicthi:u1:C4"},
	}
	idx := 0
	for _, layout := range layouts {
		var e *c03Env
		var closeF func()
		for bi, b := range bases {
			depth := D
			if bi > 0 {
				depth = D - 1
			}
			var rec func(h []string)
			rec = func(h []string) {
				if len(h) == depth {
					idx++
					if r.Mine(idx) && !r.Expired() {
						if e == nil {
							e, closeF = c03LayoutEnv(t, layout)
						}
						e.run(t, r, append(append([]string{}, b...), h...))
						r.Add("evaluations", 1)
						r.Add("distinct_nontrivial", 1)
						if idx%211 == 0 || idx <= 16 {
							r.Sample(map[string]any{"layout": layout, "history": append(append([]string{}, b...), h...)})
						}
					}
					return
				}
				for _, s := range c03Alphabet {
					rec(append(append([]string{}, h...), s))
				}
			}
			rec(nil)
		}
		if closeF != nil {
			closeF()
		}
	}
	if r.Expired() {
		r.Cap("time budget reached before all histories were explored")
	}
}
