//go:build verif

package db

import (
	"context"
	"fmt"
	"net/http"
	"sort"
	"strconv"
	"strings"
	"testing"
	"time"

	"github.com/couchbase/sync_gateway/base"
	"github.com/couchbase/sync_gateway/channels"
	"github.com/couchbase/sync_gateway/verifshim/vreport"
	"github.com/couchbase/sync_gateway/verifshim/vsched"
	"github.com/couchbase/sync_gateway/verifshim/vstore"
)

// C05 — acknowledged writes are never lost; one accepted child per parent revision.
// E1 at database level: each execution builds a fresh database on an in-memory bucket behind vstore, creates
// doc1 at revision 1, then 2-3 controlled threads each perform one write on the shared document (or a second
// document, to share the allocator, or a revision replicated from another Sync Gateway). Choice points are the storage operations; shim mutexes only block.

type c05Scenario struct {
	Ops       []string `json:"ops"`       // per thread: put | putx | del | resync | put2 (second document)
	Conflicts bool     `json:"conflicts"` // allow_conflicts
}

func (s c05Scenario) name() string {
	return fmt.Sprintf("%s|conflicts=%v", strings.Join(s.Ops, " || "), s.Conflicts)
}

type c05Ack struct {
	op     string
	rev    string
	seq    uint64
	err    error
	parent string
}

type vdb struct {
	tb    *base.TestBucket
	vb    *vstore.Bucket
	db    *Database
	ctx   context.Context
	coll  *DatabaseCollectionWithUser
	close func()
}

// newVDB creates a fresh database whose bucket is wrapped by vstore (hooks disabled until the caller enables them).
func newVDB(t testing.TB, opts DatabaseContextOptions) *vdb {
	ctx := base.TestCtx(t)
	tb := base.GetTestBucket(t)
	vb := vstore.Wrap(tb.Bucket)
	tb.Bucket = vb
	if opts.CacheOptions == nil {
		opts.CacheOptions = base.Ptr(DefaultCacheOptions())
	}
	if opts.BcryptCost == 0 {
		opts.BcryptCost = 4 // bcrypt.MinCost: password hashing speed is irrelevant to the properties explored here
	}
	db, ctx := SetupTestDBForBucketWithOptions(t, tb, opts)
	db.sequences.releaseSequenceWait = time.Hour // the idle-release timer never fires by itself
	coll, ctx := GetSingleDatabaseCollectionWithUser(ctx, t, db)
	v := &vdb{tb: tb, vb: vb, db: db, ctx: ctx, coll: coll}
	v.close = func() {
		vb.H.Enabled = false
		db.Close(ctx)
		tb.Close(ctx)
	}
	return v
}

// waitFeed waits until the change cache has caught up with the allocator, or has stopped making progress (a
// leaked sequence keeps it waiting; that is reported by the accounting oracle, not by a timeout here).
func (v *vdb) waitFeed() {
	last, err := v.db.sequences.lastSequence(v.ctx)
	if err != nil {
		return
	}
	deadline := time.Now().Add(10 * time.Second)
	prev, stable := uint64(0), time.Now()
	for time.Now().Before(deadline) {
		next := v.db.changeCache.getNextSequence()
		if next >= last+1 {
			return
		}
		if next != prev {
			prev, stable = next, time.Now()
		} else if time.Since(stable) > 400*time.Millisecond {
			return
		}
		time.Sleep(2 * time.Millisecond)
	}
}

// accountSequences checks {1..counter} = sequences carried by stored documents/principals (+) published unused.
// carried lists, per key, the sequences the oracle knows were carried by stored documents.
func (v *vdb) accountSequences(viol map[string]string, fpPrefix, name string, docIDs []string, extraCarried map[uint64]string) {
	ctx := v.ctx
	v.db.sequences.releaseUnusedSequences(ctx)
	metaKeys := v.db.MetadataKeys
	counter, err := base.GetCounter(ctx, v.db.MetadataStore, metaKeys.SyncSeqKey())
	if err != nil {
		viol[fpPrefix+"/counter-unreadable"] = err.Error()
		return
	}
	owner := map[uint64]string{}
	claim := func(n uint64, who string) {
		if prev, ok := owner[n]; ok && prev != who {
			viol[fpPrefix+"/sequence-accounted-twice"] = fmt.Sprintf("sequence %d is both %s and %s (counter %d) [%s]", n, prev, who, counter, name)
			return
		}
		owner[n] = who
	}
	for n, who := range extraCarried {
		claim(n, who)
	}
	for _, id := range docIDs {
		doc, err := v.coll.GetDocument(ctx, id, DocUnmarshalAll)
		if err != nil || doc == nil {
			continue
		}
		for _, s := range doc.RecentSequences {
			claim(s, "carried by document "+id+" (recent_sequences)")
		}
		claim(doc.Sequence, "carried by document "+id+" (recent_sequences)")
		for _, s := range doc.UnusedSequences {
			claim(s, "carried by document "+id+" (recent_sequences)")
		}
	}
	unusedPrefix := metaKeys.UnusedSeqPrefix()
	rangePrefix := metaKeys.UnusedSeqRangePrefix()
	var published []string
	for _, rec := range v.vb.H.Snapshot() {
		if rec.Op != "AddRaw" || !rec.Applied {
			continue
		}
		switch {
		case strings.HasPrefix(rec.Key, rangePrefix):
			parts := strings.Split(strings.TrimPrefix(rec.Key, rangePrefix), ":")
			if len(parts) != 2 {
				continue
			}
			from, _ := strconv.ParseUint(parts[0], 10, 64)
			to, _ := strconv.ParseUint(parts[1], 10, 64)
			published = append(published, fmt.Sprintf("%d-%d", from, to))
			for n := from; n <= to && n-from < 1000; n++ {
				claim(n, "published unused")
			}
		case strings.HasPrefix(rec.Key, unusedPrefix):
			n, _ := strconv.ParseUint(strings.TrimPrefix(rec.Key, unusedPrefix), 10, 64)
			published = append(published, fmt.Sprint(n))
			claim(n, "published unused")
		}
	}
	var missing []uint64
	for n := uint64(1); n <= counter; n++ {
		if _, ok := owner[n]; !ok {
			missing = append(missing, n)
		}
	}
	if len(missing) > 0 {
		viol[fpPrefix+"/reserved-sequence-leaked"] = fmt.Sprintf("sequences %v were reserved (counter=%d) but are neither carried by a stored document nor published unused; published=%v [%s]", missing, counter, published, name)
	}
}

func c05Build(t testing.TB, r *vreport.Report, sc c05Scenario) vsched.Scenario {
	MaxSequenceIncrFrequency = 0 // batch growth off: deterministic allocation
	v := newVDB(t, DatabaseContextOptions{AllowConflicts: base.Ptr(sc.Conflicts)})
	ctx, coll := v.ctx, v.coll
	H := v.vb.H
	H.Enabled = true // logging on from the start (sequence accounting reads the log)
	hasVV := false
	for _, op := range sc.Ops {
		if op == "vvpull" {
			hasVV = true
		}
	}
	if hasVV {
		// (the channel oracle of the replicated scenarios needs writes and resync to use one sync function)
		if _, err := coll.UpdateSyncFun(ctx, `function(doc) { channel(doc.channels); }`); err != nil {
			t.Fatalf("sync function: %v", err)
		}
	}
	rev1, doc0, err := coll.Put(ctx, "doc1", Body{"v": 0, "channels": []string{"A"}})
	if err != nil {
		t.Fatalf("setup put: %v", err)
	}
	seq0 := doc0.Sequence
	var ver0 uint64
	if doc0.HLV != nil {
		ver0 = doc0.HLV.Version
	}
	acks := make([]c05Ack, len(sc.Ops))
	threads := make([]func(), len(sc.Ops))
	for i, op := range sc.Ops {
		i, op := i, op
		threads[i] = func() {
			a := c05Ack{op: op, parent: rev1}
			switch op {
			case "put":
				rev, doc, err := coll.Put(ctx, "doc1", Body{BodyRev: rev1, "v": i + 1, "channels": []string{"A"}})
				a.rev, a.err = rev, err
				if doc != nil {
					a.seq = doc.Sequence
				}
			case "putx":
				newRev := fmt.Sprintf("2-%c%c", 'a'+i, 'a'+i)
				doc, rev, err := coll.PutExistingRevWithBody(ctx, "doc1", Body{"v": i + 10, "channels": []string{"A"}}, []string{newRev, rev1}, !sc.Conflicts, ExistingVersionWithUpdateToHLV)
				a.rev, a.err = rev, err
				if doc != nil {
					a.seq = doc.Sequence
				}
			case "del":
				rev, doc, err := coll.DeleteDoc(ctx, "doc1", DocVersion{RevTreeID: rev1})
				a.rev, a.err = rev, err
				if doc != nil {
					a.seq = doc.Sequence
				}
			case "resync":
				a.err = coll.ResyncDocument(ctx, "doc1", nil, true)
				a.parent = ""
			case "vvpull":
				// a revision of doc1 arriving from another Sync Gateway under the version-vector protocol: its vector has seen
				// revision 1 only and is newer than anything written locally, its history continues revision 1; a local write
				// that lands first turns it into a conflict, resolved by the default (last write wins, deletes win) resolver
				newRev := fmt.Sprintf("2-vv%d", i)
				incoming := &HybridLogicalVector{SourceID: fmt.Sprintf("cmVtb3Rl%d", i), Version: ver0 + 1000000000000 + uint64(i), PreviousVersions: HLVVersions{v.db.EncodedSourceID: ver0}}
				newDoc := &Document{ID: "doc1", RevID: newRev, HLV: incoming}
				newDoc.UpdateBody(Body{"v": i + 30, "channels": []string{"A", "V"}})
				doc, _, _, err := coll.PutExistingCurrentVersion(ctx, PutDocOptions{NewDoc: newDoc, RevTreeHistory: []string{newRev, rev1}, NewDocHLV: incoming, ISGRWrite: true,
					ConflictResolver: NewConflictResolver(DefaultLWWConflictResolutionType, nil)})
				a.rev, a.err = newRev, err
				if doc != nil {
					a.seq = doc.Sequence
				}
			case "put2":
				rev, doc, err := coll.Put(ctx, "doc2", Body{"v": i + 20, "channels": []string{"B"}})
				a.rev, a.err = rev, err
				a.parent = ""
				if doc != nil {
					a.seq = doc.Sequence
				}
			}
			acks[i] = a
		}
	}
	H.Schedule = true
	return vsched.Scenario{
		Threads: threads,
		Cleanup: v.close,
		Check: func(x *vsched.Exec) map[string]string {
			viol := map[string]string{}
			name := sc.name()
			H.Schedule = false
			v.waitFeed()
			doc, err := coll.GetDocument(ctx, "doc1", DocUnmarshalAll)
			if err != nil {
				viol["C05/harness/final-read-failed"] = err.Error()
				return viol
			}
			var outcome []string
			nAcked := 0
			children := 0
			seqSeen := map[uint64]string{seq0: "setup"}
			for i, a := range acks {
				outcome = append(outcome, fmt.Sprintf("%s:%v", a.op, a.err == nil))
				if a.op == "resync" {
					if a.err != nil && a.err != base.ErrUpdateCancel { // resync of a concurrently tombstoned document is cancelled, by design
						viol["C05/write/resync-failed"] = fmt.Sprintf("thread %d resync: %v [%s]", i, a.err, name)
					}
					continue
				}
				if a.err != nil {
					status, _ := base.ErrorAsHTTPStatus(a.err)
					if status != http.StatusConflict {
						viol["C05/write/unexpected-error/"+a.op] = fmt.Sprintf("thread %d %s failed with %v (HTTP %d), only a conflict error is expected [%s]", i, a.op, a.err, status, name)
					}
					if a.op == "putx" {
						rev := fmt.Sprintf("2-%c%c", 'a'+i, 'a'+i)
						if _, ok := doc.History[rev]; ok {
							viol["C05/write/rejected-write-left-a-trace"] = fmt.Sprintf("thread %d %s was rejected (%v) but revision %s is in the history [%s]", i, a.op, a.err, rev, name)
						}
					}
					continue
				}
				if a.op == "put2" {
					if prev, dup := seqSeen[a.seq]; dup {
						viol["C05/write/sequence-reused"] = fmt.Sprintf("sequence %d acknowledged to %s and to thread %d put2 [%s]", a.seq, prev, i, name)
					}
					seqSeen[a.seq] = fmt.Sprintf("thread %d put2", i)
					continue
				}
				nAcked++
				ri, ok := doc.History[a.rev]
				if !ok {
					viol["C05/write/acknowledged-write-lost/"+a.op] = fmt.Sprintf("thread %d %s was acknowledged as %s but that revision is not in the document's history %v [%s]", i, a.op, a.rev, c05Revs(doc), name)
					continue
				}
				if ri.Parent == rev1 {
					children++
				}
				if prev, dup := seqSeen[a.seq]; dup {
					viol["C05/write/sequence-reused"] = fmt.Sprintf("sequence %d acknowledged to %s and to thread %d %s [%s]", a.seq, prev, i, a.op, name)
				}
				seqSeen[a.seq] = fmt.Sprintf("thread %d %s", i, a.op)
				if a.seq <= seq0 && !(a.op == "vvpull" && a.seq == 0) {
					viol["C05/write/sequence-not-greater-than-superseded"] = fmt.Sprintf("thread %d %s got sequence %d, the revision it superseded had %d [%s]", i, a.op, a.seq, seq0, name)
				}
			}
			sort.Strings(outcome)
			r.Distinct("outcomes", name+"|"+strings.Join(outcome, ",")+"|"+doc.GetRevTreeID()[:1])
			if hasVV {
				// a replicated revision that met a local write was resolved: whatever the resolution, the tree is left with
				// at most one live leaf when conflicts are not allowed, and the document sits in the channels of its current body
				live := 0
				for _, l := range doc.History.GetLeaves() {
					if !doc.History[l].Deleted {
						live++
					}
				}
				if !sc.Conflicts && live > 1 {
					viol["C05/replicated/conflict-left-unresolved"] = fmt.Sprintf("%d live leaves after a replicated revision with a conflict resolver: %v [%s]", live, c05Revs(doc), name)
				}
				if !doc.IsDeleted() {
					body, _ := doc.GetDeepMutableBody()
					var want []string
					if cs, ok := body["channels"].([]any); ok {
						for _, c := range cs {
							want = append(want, fmt.Sprint(c))
						}
					}
					var have []string
					for ch, removed := range doc.Channels {
						if removed == nil {
							have = append(have, ch)
						}
					}
					sort.Strings(want)
					sort.Strings(have)
					if strings.Join(want, ",") != strings.Join(have, ",") {
						viol["C05/replicated/channels-do-not-match-the-current-body"] = fmt.Sprintf("current revision %s has body channels %v but the document is in channels %v; history %v [%s]", doc.GetRevTreeID(), want, have, c05Revs(doc), name)
					}
				}
			} else if !sc.Conflicts {
				if children > 1 {
					viol["C05/noconflicts/two-children-of-one-parent"] = fmt.Sprintf("%d acknowledged writes are children of %s: history %v [%s]", children, rev1, c05Revs(doc), name)
				}
				if len(doc.History) != 1+nAcked {
					viol["C05/noconflicts/history-length"] = fmt.Sprintf("history has %d revisions, expected 1+%d acknowledged writes: %v [%s]", len(doc.History), nAcked, c05Revs(doc), name)
				}
				leaves := doc.History.GetLeaves()
				if len(leaves) != 1 {
					viol["C05/noconflicts/not-a-chain"] = fmt.Sprintf("history has leaves %v [%s]", leaves, name)
				}
			}
			// every reserved sequence is accounted for (this also publishes what is still held as unused, so that the
			// change cache can reach the end)
			nBefore := len(viol)
			v.accountSequences(viol, "C05/sequences", name, []string{"doc1", "doc2"}, nil)
			if len(viol) == nBefore {
				// with no sequence missing the cache must reach the last sequence; wait on that state (generous horizon: the
				// machine may be loaded), not on a period without progress
				if last, lerr := v.db.sequences.lastSequence(v.ctx); lerr == nil {
					deadline := time.Now().Add(60 * time.Second)
					for v.db.changeCache.getNextSequence() < last+1 && time.Now().Before(deadline) {
						time.Sleep(time.Millisecond)
					}
				}
			}
			// the changes feed ends up announcing the final revision
			options := ChangesOptions{ChangesCtx: ctx}
			feed, err := coll.MultiChangesFeed(ctx, base.SetOf("*"), options)
			if err != nil {
				viol["C05/harness/changes-failed"] = err.Error()
			} else {
				last := ""
				var lastSeq uint64
				for e := range feed {
					if e.ID == "doc1" && len(e.Changes) > 0 {
						last = e.Changes[0]["rev"]
						lastSeq = e.Seq.Seq
					}
				}
				if len(viol) == nBefore && (last != doc.GetRevTreeID() || lastSeq != doc.Sequence) {
					viol["C05/changes/final-revision-not-announced"] = fmt.Sprintf("changes feed last announces doc1 at rev %q seq %d, the document is at rev %s seq %d [%s]", last, lastSeq, doc.GetRevTreeID(), doc.Sequence, name)
				}
			}
			if len(viol) == 0 {
				return nil
			}
			return viol
		},
	}
}

func c05Revs(doc *Document) []string {
	var l []string
	for r, info := range doc.History {
		l = append(l, r+"<-"+info.Parent)
	}
	sort.Strings(l)
	return l
}

var _ = channels.Conflict

type c05Replay struct {
	Sc     c05Scenario          `json:"sc"`
	Prefix []vsched.PrefixEntry `json:"prefix"`
	Bound  int                  `json:"bound"`
}

func c05Filter(k vsched.Kind) bool { return k == vsched.KStore }

func TestVerifC05(t *testing.T) {
	r := vreport.Begin("C05")
	defer r.Finish(t)
	r.Rule("scenarios = 2-3 concurrent writers (PUT with parent, pushed revision with history, delete, sequence-regenerating resync as a CAS bumper, PUT of a second document) x allow_conflicts on/off; for each, every schedule with at most B preemptions at storage operations, each on a fresh database; non-trivial = distinct (scenario, schedule)")
	r.Assume("choice points are storage operations (reads and the CAS write of the update loop are separated; the callback runs atomically with the read that feeds it); shim mutexes block but do not branch; the mutation feed and other background goroutines run free and are drained before the oracle reads")
	oldFreq := MaxSequenceIncrFrequency
	defer func() { MaxSequenceIncrFrequency = oldFreq }()

	mk := func(sc c05Scenario, bound int) vsched.Config {
		return vsched.Config{
			Name:   sc.name(),
			Bound:  bound,
			New:    func() vsched.Scenario { return c05Build(t, r, sc) },
			Filter: c05Filter,
			Whole:  true,
			Replay: func(name string, p []vsched.PrefixEntry) any { return c05Replay{Sc: sc, Prefix: p, Bound: bound} },
		}
	}
	var rc c05Replay
	if r.Replaying(&rc) {
		vsched.ReplayOne(r, mk(rc.Sc, rc.Bound), rc.Prefix)
		return
	}
	type job struct {
		sc    c05Scenario
		bound int
	}
	var jobs []job
	ops := []string{"put", "putx", "del", "resync", "put2"}
	for i, a := range ops {
		for _, b := range ops[i:] {
			if a == "put2" || (a == "resync" && b == "resync") {
				continue
			}
			for _, c := range []bool{false, true} {
				jobs = append(jobs, job{c05Scenario{Ops: []string{a, b}, Conflicts: c}, 2})
			}
		}
	}
	for _, b := range []string{"put", "putx", "del", "resync", "vvpull"} {
		for _, c := range []bool{false, true} {
			jobs = append(jobs, job{c05Scenario{Ops: []string{"vvpull", b}, Conflicts: c}, 2})
		}
	}
	triples := [][]string{{"vvpull", "put", "resync"}, {"vvpull", "del", "put"}, {"put", "resync", "put"}, {"put", "putx", "del"}, {"put", "put", "put"}, {"putx", "resync", "del"}, {"put", "put2", "resync"}, {"putx", "putx", "put"}}
	tb := 1
	if r.Thorough() {
		tb = 2
	}
	for _, tr := range triples {
		for _, c := range []bool{false, true} {
			jobs = append(jobs, job{c05Scenario{Ops: tr, Conflicts: c}, tb})
		}
	}
	r.Note("scenarios", len(jobs))
	r.Note("bound_pairs", 2)
	r.Note("bound_triples", tb)
	// shard by (scenario, first-level subtree): each scenario's tree is split among 4 shards
	for i, j := range jobs {
		if !r.Mine(i) {
			continue
		}
		if r.Expired() {
			r.Cap("time budget reached before all scenarios were explored")
			break
		}
		if vsched.FreePass(r.Add, func() vsched.Scenario { return c05Build(t, r, j.sc) }) {
			continue // race-detector pass: the same thread bodies, free-running, in a binary built with -race
		}
		vsched.Explore(r, mk(j.sc, j.bound))
		r.Add("scenarios", 1)
	}
	if vsched.FreeRuns() == 0 {
		r.Add("distinct_nontrivial", r.Get("schedules"))
	}
}
