//go:build verif

package db

import (
	"context"
	"fmt"
	"sort"
	"strconv"
	"strings"
	"sync"
	"sync/atomic"
	"testing"
	"time"

	"github.com/couchbase/sync_gateway/base"
	"github.com/couchbase/sync_gateway/verifshim/vreport"
	"github.com/couchbase/sync_gateway/verifshim/vsched"
	"github.com/couchbase/sync_gateway/verifshim/vstore"
)

// C07 — sequence numbers are unique and fully accounted (allocator level).
// E1: 2-3 controlled threads run short programs over 1-3 real sequenceAllocators that share one counter in a
// rosmar data store behind vstore. Points: the allocator mutex, Incr, Get and AddRaw on the counter /
// unused-sequence keys. After every schedule: no number handed out twice, nextSequenceGreaterThan(k) > k,
// and {1..counter} = handed-out-and-kept  (+)  published-unused (singles and ranges), pairwise disjoint.

type c07Scenario struct {
	Progs  [][]string `json:"progs"`  // per thread: ops next | gt<k> | rel | idle
	Alloc  []int      `json:"alloc"`  // per thread: allocator index
	Growth bool       `json:"growth"` // batch growth on (MaxSequenceIncrFrequency = 1h) or off (0)
}

func (s c07Scenario) name() string {
	var p []string
	for i, pr := range s.Progs {
		p = append(p, fmt.Sprintf("a%d:%s", s.Alloc[i], strings.Join(pr, ",")))
	}
	return fmt.Sprintf("%s|growth=%v", strings.Join(p, " "), s.Growth)
}

var (
	c07Once   sync.Once
	c07Bucket *vstore.Bucket
	c07Stats  *base.DatabaseStats
	c07Ctx    context.Context
	c07Count  atomic.Int64
	c07TB     *base.TestBucket
)

func c07Shared(t testing.TB) {
	c07Once.Do(func() {
		c07Ctx = base.TestCtx(t)
		c07TB = base.GetTestBucket(t)
		c07Bucket = vstore.Wrap(c07TB.Bucket)
		sgw, err := base.NewSyncGatewayStats()
		if err != nil {
			t.Fatalf("stats: %v", err)
		}
		dbstats, err := sgw.NewDBStats("c07", false, false, false, false, nil, nil)
		if err != nil {
			t.Fatalf("dbstats: %v", err)
		}
		c07Stats = dbstats.Database()
	})
}

type c07Result struct {
	op   string
	val  uint64
	k    uint64
	err  error
	kept bool
}

func c07Build(t testing.TB, r *vreport.Report, sc c07Scenario) vsched.Scenario {
	c07Shared(t)
	ctx := c07Ctx
	n := c07Count.Add(1)
	metaKeys := base.NewMetadataKeys(fmt.Sprintf("c07x%d_%d", n, time.Now().UnixNano()%1000))
	prefix := metaKeys.SyncSeqKey()
	prefix = prefix[:strings.LastIndex(prefix, "seq")] // common prefix of this execution's metadata keys
	ds := c07Bucket.DefaultDataStore(ctx)
	H := c07Bucket.H
	H.Enabled = false
	H.Reset()
	H.Select = func(op, key string) bool { return strings.HasPrefix(key, prefix) }
	H.Plan = nil
	if sc.Growth {
		MaxSequenceIncrFrequency = time.Hour
	} else {
		MaxSequenceIncrFrequency = 0
	}
	nAlloc := 0
	for _, a := range sc.Alloc {
		if a+1 > nAlloc {
			nAlloc = a + 1
		}
	}
	allocs := make([]*sequenceAllocator, nAlloc)
	for i := range allocs {
		a, err := newSequenceAllocator(ctx, ds, c07Stats, metaKeys)
		if err != nil {
			t.Fatalf("newSequenceAllocator: %v", err)
		}
		a.releaseSequenceWait = time.Hour // the idle-release timer never fires by itself; "idle" is an explicit operation
		allocs[i] = a
	}
	results := make([][]c07Result, len(sc.Progs))
	threads := make([]func(), len(sc.Progs))
	for ti := range sc.Progs {
		ti := ti
		threads[ti] = func() {
			a := allocs[sc.Alloc[ti]]
			for _, op := range sc.Progs[ti] {
				switch {
				case op == "next":
					v, err := a.nextSequence(ctx)
					results[ti] = append(results[ti], c07Result{op: op, val: v, err: err, kept: err == nil})
				case strings.HasPrefix(op, "gt"):
					k, _ := strconv.ParseUint(op[2:], 10, 64)
					v, _, err := a.nextSequenceGreaterThan(ctx, k)
					results[ti] = append(results[ti], c07Result{op: op, val: v, k: k, err: err, kept: err == nil})
				case op == "rel":
					// give back the most recent number this thread still holds
					for i := len(results[ti]) - 1; i >= 0; i-- {
						if results[ti][i].kept {
							if err := a.releaseSequence(ctx, results[ti][i].val); err == nil {
								results[ti][i].kept = false
							}
							break
						}
					}
				case op == "idle":
					a.releaseUnusedSequences(ctx)
				}
			}
		}
	}
	H.Schedule = true
	H.Enabled = true
	return vsched.Scenario{
		Threads: threads,
		Check: func(x *vsched.Exec) map[string]string {
			viol := map[string]string{}
			H.Schedule = false
			for _, a := range allocs {
				a.Stop(ctx)
			}
			// the monitor goroutine of each allocator also releases on stop; both paths are serialised by the
			// allocator mutex. Wait until both have gone through by taking each mutex once more.
			for _, a := range allocs {
				a.mutex.Lock()
				_ = a.last
				a.mutex.Unlock()
			}
			time.Sleep(0)
			H.Enabled = false
			counter, err := base.GetCounter(ctx, c07Bucket.Bucket.DefaultDataStore(ctx), metaKeys.SyncSeqKey())
			if err != nil {
				viol["C07/harness/counter-unreadable"] = err.Error()
				return viol
			}
			owner := map[uint64]string{}
			claim := func(n uint64, who string) {
				if prev, ok := owner[n]; ok {
					kind := "C07/alloc/number-accounted-twice"
					if strings.HasPrefix(prev, "handed") && strings.HasPrefix(who, "handed") {
						kind = "C07/alloc/number-handed-out-twice"
					} else if strings.HasPrefix(prev, "handed") != strings.HasPrefix(who, "handed") {
						kind = "C07/alloc/number-handed-out-and-published-unused"
					}
					viol[kind] = fmt.Sprintf("sequence %d is both %s and %s (counter=%d, scenario %s)", n, prev, who, counter, sc.name())
					return
				}
				owner[n] = who
			}
			for ti, rs := range results {
				for _, r := range rs {
					if r.err != nil {
						viol["C07/alloc/unexpected-error"] = fmt.Sprintf("thread %d op %s: %v", ti, r.op, r.err)
						continue
					}
					if r.op != "next" && r.val <= r.k {
						viol["C07/alloc/greater-than-violated"] = fmt.Sprintf("nextSequenceGreaterThan(%d) returned %d (scenario %s)", r.k, r.val, sc.name())
					}
					if r.kept {
						claim(r.val, fmt.Sprintf("handed out to thread %d by %s", ti, r.op))
					}
				}
			}
			unusedPrefix := metaKeys.UnusedSeqPrefix()
			rangePrefix := metaKeys.UnusedSeqRangePrefix()
			var published []string
			for _, rec := range H.Snapshot() {
				if rec.Op != "AddRaw" || !rec.Applied {
					continue
				}
				switch {
				case strings.HasPrefix(rec.Key, rangePrefix):
					parts := strings.Split(strings.TrimPrefix(rec.Key, rangePrefix), ":")
					if len(parts) != 2 {
						continue
					}
					from, _ := strconv.ParseUint(parts[0], 10, 64)
					to, _ := strconv.ParseUint(parts[1], 10, 64)
					published = append(published, fmt.Sprintf("%d-%d", from, to))
					if to-from > 1000 {
						viol["C07/alloc/absurd-range"] = rec.Key
						continue
					}
					for n := from; n <= to; n++ {
						claim(n, fmt.Sprintf("published unused in range %d-%d", from, to))
					}
				case strings.HasPrefix(rec.Key, unusedPrefix):
					n, _ := strconv.ParseUint(strings.TrimPrefix(rec.Key, unusedPrefix), 10, 64)
					published = append(published, fmt.Sprint(n))
					claim(n, "published unused (single)")
				}
			}
			{
				var o []string
				for _, rs := range results {
					for _, x := range rs {
						o = append(o, fmt.Sprintf("%s=%d/%v", x.op, x.val, x.kept))
					}
				}
				r.Distinct("outcomes", fmt.Sprintf("%s|%v|c%d|%v", sc.name(), o, counter, published))
			}
			var missing []uint64
			for n := uint64(1); n <= counter; n++ {
				if _, ok := owner[n]; !ok {
					missing = append(missing, n)
				}
			}
			if len(missing) > 0 {
				viol["C07/alloc/reserved-number-leaked"] = fmt.Sprintf("sequences %v were reserved (counter=%d) but are neither handed out nor published unused after every allocator stopped; published=%v scenario %s", missing, counter, published, sc.name())
			}
			var beyond []uint64
			for n := range owner {
				if n > counter || n == 0 {
					beyond = append(beyond, n)
				}
			}
			if len(beyond) > 0 {
				sort.Slice(beyond, func(i, j int) bool { return beyond[i] < beyond[j] })
				viol["C07/alloc/number-beyond-counter"] = fmt.Sprintf("sequences %v are in use but the shared counter is %d (scenario %s)", beyond, counter, sc.name())
			}
			if len(viol) == 0 {
				return nil
			}
			return viol
		},
	}
}

type c07Replay struct {
	Sc     c07Scenario          `json:"sc"`
	Prefix []vsched.PrefixEntry `json:"prefix"`
	Bound  int                  `json:"bound"`
}

func c07Filter(k vsched.Kind) bool { return k == vsched.KStore || k == vsched.KMutex }

func TestVerifC07(t *testing.T) {
	r := vreport.Begin("C07")
	defer r.Finish(t)
	r.Rule("every program assignment (threads x ops from {next, gt2, gt7, rel, idle}) x allocator sharing pattern x batch growth on/off; for each, every schedule with at most B preemptions over the points {allocator mutex, counter Incr/Get, unused-sequence AddRaw}; non-trivial = a distinct (scenario, schedule) execution, all of which share the counter")
	r.Assume("the idle-release timer is an explicit operation (releaseUnusedSequences) and stop happens after the threads; a rollback of the shared counter by an external actor is outside the quantifier")
	defer func() {
		if c07TB != nil {
			c07TB.Close(c07Ctx)
		}
	}()
	oldFreq := MaxSequenceIncrFrequency
	defer func() { MaxSequenceIncrFrequency = oldFreq }()

	mk := func(sc c07Scenario, bound int) vsched.Config {
		return vsched.Config{
			Name:   sc.name(),
			Bound:  bound,
			New:    func() vsched.Scenario { return c07Build(t, r, sc) },
			Filter: c07Filter,
			Whole:  true,
			Replay: func(name string, p []vsched.PrefixEntry) any { return c07Replay{Sc: sc, Prefix: p, Bound: bound} },
		}
	}
	var rc c07Replay
	if r.Replaying(&rc) {
		vsched.ReplayOne(r, mk(rc.Sc, rc.Bound), rc.Prefix)
		return
	}
	bound := 2
	ops := []string{"next", "gt2", "gt7", "rel", "idle"}
	var scenarios []c07Scenario
	// two threads, two ops each; same allocator / different allocators
	var progs2 [][]string
	for _, a := range ops {
		for _, b := range ops {
			progs2 = append(progs2, []string{a, b})
		}
	}
	for _, p0 := range progs2 {
		for _, p1 := range progs2 {
			if strings.Join(p0, ",") > strings.Join(p1, ",") {
				continue // symmetric
			}
			useful := false
			for _, o := range append(append([]string{}, p0...), p1...) {
				if o == "next" || strings.HasPrefix(o, "gt") {
					useful = true
				}
			}
			if !useful {
				continue
			}
			for _, alloc := range [][]int{{0, 0}, {0, 1}} {
				for _, g := range []bool{false, true} {
					scenarios = append(scenarios, c07Scenario{Progs: [][]string{p0, p1}, Alloc: alloc, Growth: g})
				}
			}
		}
	}
	// three threads, one op each (+ a second op on the first thread), mixed sharing
	if r.Thorough() {
		bound = 3
		for _, a := range ops {
			for _, b := range ops {
				for _, c := range ops {
					for _, alloc := range [][]int{{0, 0, 0}, {0, 0, 1}, {0, 1, 2}} {
						for _, g := range []bool{false, true} {
							scenarios = append(scenarios, c07Scenario{Progs: [][]string{{"next", a}, {b}, {c, "next"}}, Alloc: alloc, Growth: g})
						}
					}
				}
			}
		}
	} else {
		for _, a := range []string{"next", "gt7", "idle"} {
			for _, b := range []string{"gt2", "rel", "next"} {
				for _, alloc := range [][]int{{0, 0, 1}, {0, 1, 2}} {
					scenarios = append(scenarios, c07Scenario{Progs: [][]string{{"next", a}, {b}, {"gt7", "next"}}, Alloc: alloc, Growth: true})
				}
			}
		}
	}
	r.Note("preemption_bound", bound)
	r.Note("scenarios", len(scenarios))
	for i, sc := range scenarios {
		if !r.Mine(i) {
			continue
		}
		if r.Expired() {
			r.Cap("time budget reached before all scenarios were explored")
			break
		}
		if n := vsched.FreeRuns(); n > 0 {
			// race-detector pass: the same thread bodies, free-running, in a binary built with -race
			for k := 0; k < n; k++ {
				if v := vsched.FreeRun(c07Build(t, r, sc)); len(v) > 0 {
					r.Add("free_run_oracle_violations_not_replayable", 1)
				}
				r.Add("free_running_executions", 1)
				r.Add("evaluations", 1)
			}
			r.Add("scenarios", 1)
			continue
		}
		vsched.Explore(r, mk(sc, bound))
		r.Add("scenarios", 1)
	}
	if vsched.FreeRuns() > 0 {
		r.Add("distinct_nontrivial", r.Get("scenarios"))
		r.Sample(map[string]any{"free_running_repetitions_per_scenario": vsched.FreeRuns()})
		return
	}
	r.Add("distinct_nontrivial", r.Get("schedules"))
}
