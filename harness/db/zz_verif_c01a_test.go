//go:build verif

package db

import (
	"context"
	"fmt"
	"sort"
	"strings"
	"testing"
	"time"

	"github.com/couchbase/sync_gateway/base"
	"github.com/couchbase/sync_gateway/channels"
	"github.com/couchbase/sync_gateway/verifshim/vreport"
	"github.com/couchbase/sync_gateway/verifshim/vstate"
)

// C01 (a) — per-channel cache: component-level E2 over the real singleChannelCacheImpl with a stub query
// handler that answers from the harness's ground truth exactly like the channel view does (one row per
// document: its latest entry in the channel, ascending, sequence range, limit, active_only).

type c01aEvent struct {
	Op    string `json:"op"` // app | skip | late | read | prune | purge
	Doc   string `json:"doc,omitempty"`
	Kind  string `json:"kind,omitempty"` // active | removal | tombstone
	Since uint64 `json:"since,omitempty"`
	Limit int    `json:"limit,omitempty"`
	AO    bool   `json:"ao,omitempty"`
}

type c01aEntry struct {
	seq       uint64
	doc       string
	kind      string
	delivered bool
	purged    bool
}

func (e c01aEntry) flags() uint8 {
	switch e.kind {
	case "removal":
		return channels.Removed
	case "tombstone":
		return channels.Deleted
	}
	return 0
}

func (e c01aEntry) active() bool { return e.kind == "active" }

type c01aConfig struct {
	MaxLen    int `json:"max_len"`
	MinLen    int `json:"min_len"`
	PreWrites int `json:"pre_writes"` // entries written before the cache exists
	MaxSeq    int `json:"max_seq"`
	MaxReads  int `json:"max_reads"` // reads per history (reads also back-fill the cache, so they are transitions)
}

type c01aInst struct {
	cfg    c01aConfig
	truth  []c01aEntry // by sequence-1
	cache  *singleChannelCacheImpl
	ctx    context.Context
	stats  *base.CacheStats
	late   int
	reads  int
}

// view semantics: latest written entry per document, within [start,end]
func (in *c01aInst) getChangesInChannelFromQuery(ctx context.Context, channelName string, startSeq, endSeq uint64, limit int, activeOnly bool) (LogEntries, error) {
	latest := map[string]c01aEntry{}
	for _, e := range in.truth {
		if e.purged {
			continue
		}
		latest[e.doc] = e
	}
	var rows []c01aEntry
	for _, e := range latest {
		if e.seq < startSeq || (endSeq != 0 && e.seq > endSeq) {
			continue
		}
		if activeOnly && !e.active() {
			continue
		}
		rows = append(rows, e)
	}
	sort.Slice(rows, func(i, j int) bool { return rows[i].seq < rows[j].seq })
	if limit > 0 && len(rows) > limit {
		rows = rows[:limit]
	}
	out := make(LogEntries, 0, len(rows))
	for _, e := range rows {
		out = append(out, in.logEntry(e))
	}
	return out, nil
}

func (in *c01aInst) logEntry(e c01aEntry) *LogEntry {
	return &LogEntry{Sequence: e.seq, DocID: e.doc, RevID: fmt.Sprintf("%d-x", e.seq), Flags: e.flags(),
		TimeReceived: channels.FeedTimestamp(time.Now().Add(-time.Hour).UnixNano())}
}

var (
	c01aStats *base.CacheStats
	c01aCtx   context.Context
)

func c01aNew(t testing.TB, cfg c01aConfig) *c01aInst {
	if c01aStats == nil {
		sgw, _ := base.NewSyncGatewayStats()
		dbstats, _ := sgw.NewDBStats("c01a", false, false, false, false, nil, nil)
		c01aStats = dbstats.Cache()
		c01aCtx = base.TestCtx(t)
	}
	return &c01aInst{cfg: cfg, ctx: c01aCtx, stats: c01aStats}
}

func (in *c01aInst) ensureCache() {
	if in.cache != nil {
		return
	}
	validFrom := uint64(len(in.truth)) + 1
	in.cache = newChannelCacheWithOptions(in.ctx, in, channels.NewID("A", 0), validFrom, ChannelCacheOptions{ChannelCacheMaxLength: in.cfg.MaxLen, ChannelCacheAge: time.Nanosecond}, in.stats)
	in.cache.options.ChannelCacheMinLength = in.cfg.MinLen
}

func (in *c01aInst) Close() {}

func (in *c01aInst) Enabled() []c01aEvent {
	var ev []c01aEvent
	n := len(in.truth)
	if n < in.cfg.MaxSeq {
		for _, d := range []string{"d1", "d2"} {
			for _, k := range []string{"active", "removal", "tombstone"} {
				if d == "d2" && k == "tombstone" {
					continue // tombstone and removal differ only in the flag; one document carries both kinds
				}
				ev = append(ev, c01aEvent{Op: "app", Doc: d, Kind: k})
			}
		}
		if in.late == 0 && n >= in.cfg.PreWrites {
			ev = append(ev, c01aEvent{Op: "skip"})
		}
	}
	if n < in.cfg.PreWrites {
		return ev // the cache does not exist yet
	}
	if in.late == 1 {
		ev = append(ev, c01aEvent{Op: "late"})
	}
	ev = append(ev, c01aEvent{Op: "prune"})
	for _, te := range in.truth {
		if te.doc == "d1" && !te.purged {
			ev = append(ev, c01aEvent{Op: "purge", Doc: "d1"})
			break
		}
	}
	if in.reads < in.cfg.MaxReads {
		for since := uint64(0); since <= uint64(n); since++ {
			for _, limit := range []int{0, 1, 2} {
				for _, ao := range []bool{false, true} {
					if ao && limit == 2 {
						continue
					}
					ev = append(ev, c01aEvent{Op: "read", Since: since, Limit: limit, AO: ao})
				}
			}
		}
	}
	return ev
}

// expected: latest written entry per document (view semantics), restricted to documents whose latest entry has
// been delivered (or predates the cache), with seq > since.
func (in *c01aInst) expected(since uint64, activeOnly bool) (must []c01aEntry, may map[uint64]bool) {
	latest := map[string]c01aEntry{}
	may = map[uint64]bool{}
	for _, e := range in.truth {
		if e.purged {
			continue
		}
		latest[e.doc] = e
	}
	for _, e := range latest {
		if e.seq <= since {
			continue
		}
		if activeOnly && !e.active() {
			continue
		}
		if e.delivered {
			must = append(must, e)
		}
		may[e.seq] = true
	}
	sort.Slice(must, func(i, j int) bool { return must[i].seq < must[j].seq })
	return must, may
}

func (in *c01aInst) Apply(e c01aEvent) map[string]string {
	viol := map[string]string{}
	switch e.Op {
	case "app", "skip":
		seq := uint64(len(in.truth)) + 1
		ent := c01aEntry{seq: seq, doc: e.Doc, kind: e.Kind, delivered: true}
		if e.Op == "skip" {
			ent = c01aEntry{seq: seq, doc: "dL", kind: "active", delivered: false}
			in.late = 1
		}
		in.truth = append(in.truth, ent)
		if len(in.truth) > in.cfg.PreWrites || in.cache != nil {
			in.ensureCache()
			if ent.delivered {
				in.cache.addToCache(in.ctx, in.logEntry(ent), ent.kind == "removal")
			}
		}
		if len(in.truth) == in.cfg.PreWrites {
			in.ensureCache()
		}
	case "late":
		in.ensureCache()
		for i := range in.truth {
			if in.truth[i].doc == "dL" && !in.truth[i].delivered {
				in.truth[i].delivered = true
				in.cache.addToCache(in.ctx, in.logEntry(in.truth[i]), false)
			}
		}
		in.late = 2
	case "prune":
		in.ensureCache()
		in.cache.pruneCacheAge(in.ctx)
	case "purge":
		in.ensureCache()
		for i := range in.truth {
			if in.truth[i].doc == e.Doc {
				in.truth[i].purged = true
			}
		}
		in.cache.Remove(in.ctx, 0, []string{e.Doc}, time.Now())
	case "read":
		in.ensureCache()
		in.reads++
		opts := ChangesOptions{Since: SequenceID{Seq: e.Since}, Limit: e.Limit, ActiveOnly: e.AO, ChangesCtx: in.ctx}
		res, err := in.cache.GetChanges(in.ctx, opts)
		tag := fmt.Sprintf("limit=%d/active_only=%v", e.Limit, e.AO)
		if err != nil {
			viol["C01a/read/error/"+tag] = err.Error()
			break
		}
		desc := func() string {
			var r []string
			for _, x := range res {
				r = append(r, fmt.Sprintf("%d:%s:%d", x.Sequence, x.DocID, x.Flags))
			}
			return fmt.Sprintf("GetChanges(since=%d,%s) = %v; truth=%s; cache logs=%s validFrom=%d", e.Since, tag, r, in.truthString(), in.logsString(), in.cache.validFrom)
		}
		seenDoc := map[string]bool{}
		var prev uint64
		got := map[uint64]*LogEntry{}
		for i, x := range res {
			if i > 0 && x.Sequence <= prev {
				viol["C01a/read/not-ascending/"+tag] = desc()
			}
			prev = x.Sequence
			if seenDoc[x.DocID] {
				viol["C01a/read/duplicate-document/"+tag] = desc()
			}
			seenDoc[x.DocID] = true
			got[x.Sequence] = x
			if x.Sequence <= e.Since {
				viol["C01a/read/entry-not-after-since/"+tag] = desc()
			}
			if int(x.Sequence) > len(in.truth) || in.truth[x.Sequence-1].doc != x.DocID || in.truth[x.Sequence-1].flags()&(channels.Removed|channels.Deleted) != x.Flags&(channels.Removed|channels.Deleted) {
				viol["C01a/read/entry-not-in-history/"+tag] = desc()
			} else if in.truth[x.Sequence-1].purged {
				viol["C01a/read/purged-document-returned/"+tag] = desc()
			}
		}
		if e.Limit > 0 && !e.AO && len(res) > e.Limit {
			viol["C01a/read/limit-exceeded/"+tag] = desc()
		}
		must, may := in.expected(e.Since, e.AO)
		// superseded entries (a later entry of the same document exists and is delivered) must not be returned
		for _, x := range res {
			if !may[x.Sequence] && !(e.AO && !in.truth[x.Sequence-1].active()) {
				if in.latestDelivered(x.DocID) > x.Sequence {
					viol["C01a/read/superseded-entry-returned/"+tag] = desc()
				}
			}
		}
		// completeness up to the last returned sequence when the limit was reached, else to the end
		horizon := uint64(1 << 62)
		if e.Limit > 0 && len(res) >= e.Limit {
			horizon = res[len(res)-1].Sequence
		}
		for _, m := range must {
			if m.seq > horizon {
				continue
			}
			if _, ok := got[m.seq]; !ok {
				viol["C01a/read/change-missing/"+tag] = fmt.Sprintf("entry %d:%s(%s) is the document's latest delivered entry after since but is missing. %s", m.seq, m.doc, m.kind, desc())
			}
		}
	}
	// state invariants
	if in.cache != nil {
		in.cache.lock.RLock()
		var prev uint64
		docs := map[string]bool{}
		for i, l := range in.cache.logs {
			if i > 0 && l.Sequence <= prev {
				viol["C01a/state/logs-not-ascending/"+e.Op] = in.logsString()
			}
			prev = l.Sequence
			if docs[l.DocID] {
				viol["C01a/state/two-entries-for-one-document/"+e.Op] = in.logsString()
			}
			docs[l.DocID] = true
		}
		if len(docs) != len(in.cache.cachedDocIDs) {
			viol["C01a/state/cached-doc-ids-out-of-sync/"+e.Op] = fmt.Sprintf("logs=%s cachedDocIDs=%v", in.logsString(), in.cache.cachedDocIDs)
		}
		for d := range docs {
			if _, ok := in.cache.cachedDocIDs[d]; !ok {
				viol["C01a/state/cached-doc-ids-out-of-sync/"+e.Op] = fmt.Sprintf("logs=%s cachedDocIDs=%v", in.logsString(), in.cache.cachedDocIDs)
			}
		}
		if len(in.cache.logs) > in.cfg.MaxLen {
			viol["C01a/state/longer-than-max-length/"+e.Op] = in.logsString()
		}
		// complete from the validity point: every document whose latest entry is delivered and >= validFrom is cached with it
		must, _ := in.expected(0, false)
		inLogs := map[uint64]bool{}
		for _, l := range in.cache.logs {
			inLogs[l.Sequence] = true
		}
		for _, m := range must {
			if m.seq >= in.cache.validFrom && !inLogs[m.seq] {
				viol["C01a/state/incomplete-from-valid-from/"+e.Op] = fmt.Sprintf("validFrom=%d but entry %d:%s is not cached; logs=%s truth=%s", in.cache.validFrom, m.seq, m.doc, in.logsString(), in.truthString())
			}
		}
		in.cache.lock.RUnlock()
	}
	if len(viol) == 0 {
		return nil
	}
	return viol
}

func (in *c01aInst) latestDelivered(doc string) uint64 {
	var s uint64
	for _, e := range in.truth {
		if e.doc == doc && e.delivered {
			s = e.seq
		}
	}
	return s
}

func (in *c01aInst) truthString() string {
	var p []string
	for _, e := range in.truth {
		d := ""
		if !e.delivered {
			d = "(undelivered)"
		}
		if e.purged {
			d += "(purged)"
		}
		p = append(p, fmt.Sprintf("%d:%s:%s%s", e.seq, e.doc, e.kind, d))
	}
	return "[" + strings.Join(p, " ") + "]"
}

func (in *c01aInst) logsString() string {
	var p []string
	for _, l := range in.cache.logs {
		p = append(p, fmt.Sprintf("%d:%s:%d", l.Sequence, l.DocID, l.Flags))
	}
	return "[" + strings.Join(p, " ") + "]"
}

func (in *c01aInst) Canon() string {
	if in.cache == nil {
		return "nocache|" + in.truthString()
	}
	in.cache.lock.RLock()
	defer in.cache.lock.RUnlock()
	return fmt.Sprintf("%s|%s|vf%d|late%d|r%d", in.truthString(), in.logsString(), in.cache.validFrom, in.late, in.reads)
}

type c01aReplay struct {
	Kind string      `json:"kind"`
	Cfg  c01aConfig  `json:"cfg"`
	Hist []c01aEvent `json:"hist"`
}

func TestVerifC01a(t *testing.T) {
	r := vreport.Begin("C01")
	defer r.Finish(t)
	r.Rule("(a) BFS over append (2 documents x active/removal/tombstone) / skipped write / late arrival / age prune / purge / read(every since, limit 0-2, active_only) on the real singleChannelCacheImpl for every (max length 1-3, min length 0-1, 0 or 2 writes before the cache exists); canonical state = (history with delivery flags, cached log, validFrom); non-trivial = distinct canonical state")
	r.Assume("the query handler stub answers like the channel view: one row per document (its latest entry in the channel), ascending, restricted to the requested sequence range, limit and active_only; a skipped write belongs to a document with no other entries")
	mk := func(cfg c01aConfig, depth int) vstate.Config[c01aEvent] {
		return vstate.Config[c01aEvent]{
			Name:     fmt.Sprintf("max%d/min%d/pre%d/n%d/r%d", cfg.MaxLen, cfg.MinLen, cfg.PreWrites, cfg.MaxSeq, cfg.MaxReads),
			New:      func() vstate.Instance[c01aEvent] { return c01aNew(t, cfg) },
			MaxDepth: depth,
			Replay:   func(name string, h []c01aEvent) any { return c01aReplay{Kind: "cache", Cfg: cfg, Hist: h} },
		}
	}
	var rc c01aReplay
	if r.Replaying(&rc) {
		if rc.Kind == "cache" {
			vstate.ReplayHistory(r, mk(rc.Cfg, len(rc.Hist)), rc.Hist)
		}
		return
	}
	maxSeq, depth, maxReads := 4, 7, 2
	if r.Thorough() {
		maxSeq, depth, maxReads = 5, 9, 3
	}
	r.Note("max_reads_per_history", maxReads)
	r.Note("max_sequences", maxSeq)
	r.Note("depth", depth)
	idx := 0
	for _, ml := range []int{1, 2, 3} {
		for _, mn := range []int{0, 1} {
			for _, pre := range []int{0, 2} {
				idx++
				if !r.Mine(idx) {
					continue
				}
				vstate.Explore(r, mk(c01aConfig{MaxLen: ml, MinLen: mn, PreWrites: pre, MaxSeq: maxSeq, MaxReads: maxReads}, depth))
				r.Add("configs", 1)
			}
		}
	}
	r.Add("distinct_nontrivial", r.Get("states"))
}
