//go:build verif

package db

import (
	"context"
	"fmt"
	"sort"
	"strings"
	"sync"
	"testing"

	"github.com/couchbase/sync_gateway/base"
	"github.com/couchbase/sync_gateway/verifshim/vreport"
	"github.com/couchbase/sync_gateway/verifshim/vsched"
)

// C16 — the revision cache returns what the bucket holds and accounts for itself exactly.
// E1 over the real RevisionCacheOrchestrator (LRU revision cache + memory controller) with a harness backing
// store. Controlled threads run short programs over two documents whose keys collide in a cache of capacity
// 1 or 2; points are the cache lock, value locks, the memState / itemBytes / byte-gauge atomics.

type c16Doc struct {
	body     string
	channels []string
	version  int // bumped by a metadata-only channel change (same revision, same cv)
}

type c16Store struct {
	mu    sync.Mutex
	docs  map[string]*c16Doc
	loads map[string]int
	// failRevision: the next n getRevision calls fail (a transient body-load failure after GetDocument succeeded)
	failRevision map[int]int
}

const c16RevTreeID = "1-abc"

func c16CV(docID string) Version { return Version{SourceID: "src", Value: 100 + uint64(docID[len(docID)-1]-'0')} }

func (s *c16Store) exists(docID string) bool {
	s.mu.Lock()
	defer s.mu.Unlock()
	return s.docs[docID] != nil
}

func (s *c16Store) snapshot(docID string) c16Doc {
	s.mu.Lock()
	defer s.mu.Unlock()
	d := s.docs[docID]
	if d == nil {
		return c16Doc{}
	}
	return c16Doc{body: d.body, channels: append([]string{}, d.channels...), version: d.version}
}

func (s *c16Store) GetDocument(ctx context.Context, docid string, unmarshalLevel DocumentUnmarshalLevel) (*Document, error) {
	vsched.Point(vsched.KUser, "store.GetDocument:"+docid)
	s.mu.Lock()
	d, ok := s.docs[docid]
	var snap c16Doc
	if ok {
		snap = c16Doc{body: d.body, channels: append([]string{}, d.channels...), version: d.version}
		s.loads[docid]++
	}
	s.mu.Unlock()
	if !ok {
		return nil, ErrMissing
	}
	doc := NewDocument(docid)
	doc._body = Body{"marker": snap.body}
	doc.SetRevTreeID(c16RevTreeID)
	doc.History = RevTree{c16RevTreeID: {ID: c16RevTreeID}}
	cv := c16CV(docid)
	doc.HLV = &HybridLogicalVector{SourceID: cv.SourceID, Version: cv.Value}
	if _, err := doc.updateChannels(ctx, base.SetFromArray(snap.channels)); err != nil {
		return nil, err
	}
	return doc, nil
}

func (s *c16Store) bodyFor(doc *Document) ([]byte, base.Set, error) {
	ch, _ := doc.channelsForRevTreeID(doc.GetRevTreeID())
	b, err := base.JSONMarshal(Body{"marker": doc._body["marker"]})
	return b, ch, err
}

func (s *c16Store) getRevision(ctx context.Context, doc *Document, revid string) ([]byte, AttachmentsMeta, base.Set, error) {
	if revid != doc.GetRevTreeID() {
		return nil, nil, nil, ErrMissing
	}
	s.mu.Lock()
	tid := vsched.ThreadID()
	fail := s.failRevision[tid] > 0
	if fail {
		s.failRevision[tid]--
	}
	s.mu.Unlock()
	if fail {
		return nil, nil, nil, fmt.Errorf("injected transient failure loading revision %s of %s", revid, doc.ID)
	}
	b, ch, err := s.bodyFor(doc)
	return b, nil, ch, err
}

func (s *c16Store) getCurrentVersion(ctx context.Context, doc *Document, cv Version, loadBackup bool) ([]byte, AttachmentsMeta, base.Set, bool, error) {
	if err := doc.HasCurrentVersion(ctx, cv); err != nil {
		return nil, nil, nil, false, err
	}
	b, ch, err := s.bodyFor(doc)
	return b, nil, ch, false, err
}

type c16Scenario struct {
	// ops: get1 get2 miss1 act1 act2 put1 put2 ups1 ups2 rem1 rem2 peek1 chan1; d3 does not exist until new3 stores it and
	// puts it in the cache (a writer creating a document); actf1 = get-active whose body load fails once
	Progs     [][]string `json:"progs"`
	Capacity  uint32     `json:"capacity"`
	MaxBytes  int64      `json:"max_bytes"`
	PreLoaded []string   `json:"preloaded,omitempty"` // docs loaded (sequentially) before the threads start
}

func (s c16Scenario) name() string {
	var p []string
	for _, pr := range s.Progs {
		p = append(p, strings.Join(pr, ","))
	}
	return fmt.Sprintf("%s|cap=%d|bytes=%d|pre=%v", strings.Join(p, " || "), s.Capacity, s.MaxBytes, s.PreLoaded)
}

type c16Obs struct {
	op       string
	doc      string
	err      error
	body     string
	channels string
	found    bool
	startVer int // store version of the doc when the op started
	existed  bool // the document was in storage when the op started
	t0, t1   int  // logical start / end time (one controlled thread runs at a time)
	endVer   int // version whose invalidation had completed when the op started (chanDone)
}

func c16Build(t testing.TB, r *vreport.Report, sc c16Scenario) vsched.Scenario {
	ctx := base.TestCtx(t)
	store := &c16Store{docs: map[string]*c16Doc{
		"d1": {body: "B1", channels: []string{"A"}},
		"d2": {body: "B2-longer-body", channels: []string{"A", "BB"}},
	}, loads: map[string]int{}, failRevision: map[int]int{}}
	stats := revisionCacheStats{cacheHitStat: &base.SgwIntStat{}, cacheMissStat: &base.SgwIntStat{}, cacheNumItemsStat: &base.SgwIntStat{}, cacheMemoryStat: &base.SgwIntStat{}}
	const coll = uint32(0)
	orch := NewRevisionCacheOrchestrator(&RevisionCacheOptions{MaxItemCount: sc.Capacity, MaxBytes: sc.MaxBytes, ShardCount: 1},
		map[uint32]RevisionCacheBackingStore{coll: store}, stats, nil, false)
	rc := orch.revisionCache

	docRevFor := func(docID string) DocumentRevision {
		cv := c16CV(docID)
		body, hist, ch, _, _, deleted, _, revid, hlv, err := revCacheLoaderForCv(ctx, store, IDandCV{DocID: docID, Source: cv.SourceID, Version: cv.Value}, false)
		if err != nil {
			t.Fatalf("docRevFor: %v", err)
		}
		dr := DocumentRevision{DocID: docID, RevID: revid, CV: &cv, BodyBytes: body, History: hist, Channels: ch, Deleted: deleted}
		if hlv != nil {
			dr.HlvHistory = hlv.ToHistoryForHLV()
		}
		return dr
	}
	for _, d := range sc.PreLoaded {
		if _, _, err := orch.Get(ctx, d, c16CV(d).String(), coll, false); err != nil {
			t.Fatalf("preload: %v", err)
		}
	}
	var chanDone sync.Map // doc -> version whose invalidation has completed
	var clockMu sync.Mutex
	clock := 0
	tick := func() int {
		clockMu.Lock()
		defer clockMu.Unlock()
		clock++
		return clock
	}
	obs := make([][]c16Obs, len(sc.Progs))
	threads := make([]func(), len(sc.Progs))
	for ti := range sc.Progs {
		ti := ti
		threads[ti] = func() {
			for _, op := range sc.Progs[ti] {
				docID := "d" + op[len(op)-1:]
				kind := op[:len(op)-1]
				o := c16Obs{op: kind, doc: docID}
				if v, ok := chanDone.Load(docID); ok {
					o.endVer = v.(int)
				}
				o.startVer = store.snapshot(docID).version
				o.existed = store.exists(docID)
				o.t0 = tick()
				fill := func(dr DocumentRevision, err error) {
					o.err = err
					if err == nil {
						o.body = string(dr.BodyBytes)
						o.channels = strings.Join(dr.Channels.ToArray(), ",")
						chs := dr.Channels.ToArray()
						sort.Strings(chs)
						o.channels = strings.Join(chs, ",")
					}
				}
				switch kind {
				case "get":
					dr, _, err := orch.Get(ctx, docID, c16CV(docID).String(), coll, false)
					fill(dr, err)
				case "miss": // a version the document does not have: the loader fails
					_, _, err := orch.Get(ctx, docID, Version{SourceID: "other", Value: 7}.String(), coll, false)
					o.err = err
				case "act":
					dr, _, err := orch.GetActive(ctx, docID, coll)
					fill(dr, err)
				case "actf":
					store.mu.Lock()
					store.failRevision[vsched.ThreadID()] = 1 // only this thread's own load fails
					store.mu.Unlock()
					dr, _, err := orch.GetActive(ctx, docID, coll)
					fill(dr, err)
					store.mu.Lock()
					store.failRevision[vsched.ThreadID()] = 0
					store.mu.Unlock()
				case "new":
					// a writer creates the document: stores it, then puts the revision it wrote in the cache
					vsched.Point(vsched.KUser, "store.create:"+docID)
					store.mu.Lock()
					store.docs[docID] = &c16Doc{body: "B3-created", channels: []string{"A"}}
					store.mu.Unlock()
					o.err = orch.Put(ctx, docRevFor(docID), coll)
				case "put":
					o.err = orch.Put(ctx, docRevFor(docID), coll)
				case "ups":
					o.err = orch.Upsert(ctx, docRevFor(docID), coll)
				case "rem":
					orch.Remove(ctx, docID, c16CV(docID).String(), coll)
				case "peek":
					dr, found := orch.Peek(ctx, docID, c16CV(docID).String(), coll)
					o.found = found
					if found {
						fill(dr, nil)
					}
				case "chan":
					// metadata-only update: same revision, new channel set; then the invalidation the mutation feed performs
					vsched.Point(vsched.KUser, "store.update-channels:"+docID)
					store.mu.Lock()
					d := store.docs[docID]
					d.version++
					d.channels = []string{"CCC"}
					ver := d.version
					store.mu.Unlock()
					orch.Remove(ctx, docID, c16RevTreeID, coll)
					orch.Remove(ctx, docID, c16CV(docID).String(), coll)
					chanDone.Store(docID, ver)
				}
				o.t1 = tick()
				obs[ti] = append(obs[ti], o)
			}
		}
	}
	return vsched.Scenario{
		Threads: threads,
		Check: func(x *vsched.Exec) map[string]string {
			viol := map[string]string{}
			name := sc.name()
			wantChannels := func(docID string, ver int) string {
				if ver > 0 {
					return "CCC"
				}
				if docID == "d2" {
					return "A,BB"
				}
				return "A"
			}
			// A read that fails is judged only when its failure cannot come from a load that legitimately failed: the cache
			// lets concurrent readers of one key share one load, so a read overlapping (directly or through a chain of
			// overlapping failed reads) a load that failed for a good reason (document not stored yet when that load
			// started, or the injected body-load failure) may report that load's error. The property constrains
			// revisions that are served, not which overlapping read reports a failed load.
			type fo struct {
				doc    string
				t0, t1 int
			}
			var excused []fo
			for _, os := range obs {
				for _, o := range os {
					if o.err != nil && (!o.existed || o.op == "actf") {
						excused = append(excused, fo{o.doc, o.t0, o.t1})
					}
				}
			}
			isExcused := func(o c16Obs) bool {
				for _, f := range excused {
					if f.doc == o.doc && f.t0 <= o.t1 && o.t0 <= f.t1 {
						return true
					}
				}
				return false
			}
			for changed := true; changed; {
				changed = false
				for _, os := range obs {
					for _, o := range os {
						if o.err == nil || (o.op != "get" && o.op != "act") || !isExcused(o) {
							continue
						}
						dup := false
						for _, f := range excused {
							if f.doc == o.doc && f.t0 == o.t0 && f.t1 == o.t1 {
								dup = true
							}
						}
						if !dup {
							excused = append(excused, fo{o.doc, o.t0, o.t1})
							changed = true
						}
					}
				}
			}
			var outcome []string
			for ti, os := range obs {
				for _, o := range os {
					outcome = append(outcome, fmt.Sprintf("%d:%s%s=%v/%s/%s/%v", ti, o.op, o.doc, o.err != nil, o.body, o.channels, o.found))
					switch o.op {
					case "get", "act", "peek":
						if o.op == "peek" && !o.found {
							continue
						}
						if o.err != nil {
							if !o.existed || isExcused(o) {
								continue // not stored yet when the read started, or sharing a load that failed for a good reason
							}
							viol["C16/read/unexpected-error/"+o.op] = fmt.Sprintf("%s(%s): %v [%s]", o.op, o.doc, o.err, name)
							continue
						}
						wantBody := fmt.Sprintf(`{"marker":"%s"}`, store.docs[o.doc].body)
						if o.body != wantBody {
							viol["C16/read/wrong-body/"+o.op] = fmt.Sprintf("%s(%s) returned body %s, storage holds %s [%s]", o.op, o.doc, o.body, wantBody, name)
						}
						final := store.docs[o.doc].version
						ok := false
						for v := o.endVer; v <= final; v++ { // any version not older than the last completed invalidation
							if o.channels == wantChannels(o.doc, v) {
								ok = true
							}
						}
						if !ok {
							viol["C16/read/stale-or-wrong-channels/"+o.op] = fmt.Sprintf("%s(%s) returned channels [%s]; a channel change to version %d had completed (incl. invalidation) before the read started, storage now holds [%s] [%s]", o.op, o.doc, o.channels, o.endVer, wantChannels(o.doc, final), name)
						}
					case "miss":
						if o.err == nil {
							viol["C16/read/missing-version-served"] = fmt.Sprintf("Get of a version the document does not have succeeded [%s]", name)
						}
					case "actf":
						// the injected failure may or may not have been consumed by this call (a cache hit loads nothing);
						// either answer is legal for this call, later reads are judged normally
					case "put", "ups", "new":
						if o.err != nil {
							viol["C16/write/unexpected-error/"+o.op] = fmt.Sprintf("%s(%s): %v", o.op, o.doc, o.err)
						}
					}
				}
			}
			// ---- accounting at quiescence
			rc.lock.Lock()
			nMap, nList := len(rc.cache), rc.lruList.Len()
			var sum int64
			notSized := 0
			for _, el := range rc.cache {
				v := el.Value.(*revCacheValue)
				if v.memState.Load() == memStateSized {
					sum += v.getItemBytes()
				} else {
					notSized++
				}
			}
			rc.lock.Unlock()
			gauge := orch.memoryController.bytesInUseForShard.Load()
			items := stats.cacheNumItemsStat.Value()
			outcome = append(outcome, fmt.Sprintf("items=%d gauge=%d", nMap, gauge))
			r.Distinct("outcomes", name+"|"+strings.Join(outcome, " "))
			if nMap != nList {
				viol["C16/accounting/map-list-mismatch"] = fmt.Sprintf("cache map has %d entries, LRU list %d [%s]", nMap, nList, name)
			}
			if int64(nMap) != items {
				viol["C16/accounting/item-count-gauge-wrong"] = fmt.Sprintf("item gauge reports %d, cache holds %d [%s]", items, nMap, name)
			}
			if uint32(nMap) > sc.Capacity {
				viol["C16/capacity/exceeded"] = fmt.Sprintf("cache holds %d items, capacity %d [%s]", nMap, sc.Capacity, name)
			}
			if notSized > 0 {
				viol["C16/accounting/resident-value-not-accounted"] = fmt.Sprintf("%d resident value(s) are not in the sized state at quiescence [%s]", notSized, name)
			}
			if gauge != sum {
				viol["C16/accounting/byte-gauge-drift"] = fmt.Sprintf("byte gauge reports %d, resident sized values hold %d [%s]", gauge, sum, name)
			}
			if g2 := stats.cacheMemoryStat.Value(); g2 != gauge {
				viol["C16/accounting/global-byte-stat-differs"] = fmt.Sprintf("global stat %d, shard gauge %d [%s]", g2, gauge, name)
			}
			// empty the cache: gauges must return to zero
			rc.lock.Lock()
			var keys []revCacheKey
			for k := range rc.cache {
				keys = append(keys, k)
			}
			rc.lock.Unlock()
			for _, k := range keys {
				orch.Remove(ctx, k.docID, k.docVersion, coll)
			}
			if g := orch.memoryController.bytesInUseForShard.Load(); g != 0 || stats.cacheNumItemsStat.Value() != 0 {
				viol["C16/accounting/not-zero-when-emptied"] = fmt.Sprintf("after removing every entry: byte gauge %d, item gauge %d [%s]", g, stats.cacheNumItemsStat.Value(), name)
			}
			if len(viol) == 0 {
				return nil
			}
			return viol
		},
	}
}

type c16Replay struct {
	Sc     c16Scenario          `json:"sc"`
	Prefix []vsched.PrefixEntry `json:"prefix"`
	Bound  int                  `json:"bound"`
}

func TestVerifC16(t *testing.T) {
	r := vreport.Begin("C16")
	defer r.Finish(t)
	r.Rule("scenarios = thread programs over {get, get of a version that does not exist, get-active, get-active whose body load fails once, put, upsert, remove, peek, metadata-only channel change + invalidation, creation of a third document by a writer while readers ask for it} on two (three) documents x item capacity {1,2} x byte limit {0, small}; for each, every schedule with at most B preemptions over all shim mutex, value-lock and atomic operations of the revision cache files plus backing-store loads; non-trivial = distinct (scenario, schedule)")
	r.Assume("the delta cache is off; the backing store is a harness map whose loads are scheduling points; values put by writers equal the stored content (a writer puts what it wrote)")

	mk := func(sc c16Scenario, bound int) vsched.Config {
		return vsched.Config{
			Name:  sc.name(),
			Bound: bound,
			New:   func() vsched.Scenario { return c16Build(t, r, sc) },
			Whole: true,
			Replay: func(name string, p []vsched.PrefixEntry) any {
				return c16Replay{Sc: sc, Prefix: p, Bound: bound}
			},
		}
	}
	var rc c16Replay
	if r.Replaying(&rc) {
		vsched.ReplayOne(r, mk(rc.Sc, rc.Bound), rc.Prefix)
		return
	}
	bound := 2
	if r.Thorough() {
		bound = 3
	}
	var scenarios []c16Scenario
	add := func(progs [][]string, pre []string) {
		for _, cap := range []uint32{1, 2} {
			for _, mb := range []int64{0, 60} {
				scenarios = append(scenarios, c16Scenario{Progs: progs, Capacity: cap, MaxBytes: mb, PreLoaded: pre})
			}
		}
	}
	// pairs of single operations on colliding keys, cold and warm
	single := []string{"get1", "act1", "put1", "ups1", "rem1", "miss1", "peek1", "get2", "put2"}
	for i, a := range single {
		for _, b := range single[i:] {
			add([][]string{{a}, {b}}, nil)
			add([][]string{{a}, {b}}, []string{"d1"})
		}
	}
	// three threads: concurrent miss + removal + eviction pressure
	add([][]string{{"get1"}, {"rem1"}, {"get2"}}, nil)
	add([][]string{{"get1"}, {"get1"}, {"rem1"}}, nil)
	add([][]string{{"get1"}, {"put1"}, {"rem1"}}, nil)
	add([][]string{{"ups1"}, {"get1"}, {"get2"}}, []string{"d1"})
	add([][]string{{"act1"}, {"get1"}, {"rem1"}}, nil)
	add([][]string{{"put1"}, {"put1"}, {"get2"}}, nil)
	add([][]string{{"miss1"}, {"get1"}, {"get2"}}, nil)
	// two operations per thread
	add([][]string{{"get1", "rem1"}, {"put1", "get2"}}, nil)
	add([][]string{{"get1", "get2"}, {"get2", "get1"}}, nil)
	add([][]string{{"ups1", "rem1"}, {"get1", "peek1"}}, []string{"d1"})
	// a reader asks for a document that is being created: its failed load must not disturb the writer's entry
	add([][]string{{"get3"}, {"new3"}}, nil)
	add([][]string{{"act3"}, {"new3"}}, nil)
	add([][]string{{"get3", "get3"}, {"new3"}}, nil)
	add([][]string{{"get3"}, {"new3"}, {"get3"}}, nil)
	add([][]string{{"get3"}, {"new3", "get3"}}, nil)
	// a body load that fails once after the document lookup succeeded must not stay in the cache
	add([][]string{{"actf1", "act1"}}, nil)
	add([][]string{{"actf1", "get1", "act1"}}, nil)
	add([][]string{{"actf1"}, {"act1"}}, nil)
	add([][]string{{"actf1", "act1"}, {"get1"}}, nil)
	add([][]string{{"actf1", "peek1"}, {"rem1"}}, nil)
	// metadata-only channel change racing with readers (no writer puts: the revision is not new)
	add([][]string{{"chan1"}, {"get1"}}, []string{"d1"})
	add([][]string{{"chan1"}, {"act1"}}, []string{"d1"})
	add([][]string{{"chan1", "get1"}, {"get1"}}, []string{"d1"})
	add([][]string{{"chan1", "act1"}, {"get1", "get1"}}, nil)
	add([][]string{{"chan1"}, {"get1"}, {"act1", "get1"}}, []string{"d1"})
	r.Note("preemption_bound", bound)
	r.Note("scenarios", len(scenarios))
	for i, sc := range scenarios {
		if !r.Mine(i) {
			continue
		}
		if r.Expired() {
			r.Cap("time budget reached before all scenarios were explored")
			break
		}
		if n := vsched.FreeRuns(); n > 0 {
			// race-detector pass: the same thread bodies, free-running, in a binary built with -race
			for k := 0; k < n; k++ {
				if v := vsched.FreeRun(c16Build(t, r, sc)); len(v) > 0 {
					r.Add("free_run_oracle_violations_not_replayable", 1)
				}
				r.Add("free_running_executions", 1)
				r.Add("evaluations", 1)
			}
			r.Add("scenarios", 1)
			continue
		}
		vsched.Explore(r, mk(sc, bound))
		r.Add("scenarios", 1)
	}
	if vsched.FreeRuns() > 0 {
		r.Add("distinct_nontrivial", r.Get("scenarios"))
		r.Sample(map[string]any{"free_running_repetitions_per_scenario": vsched.FreeRuns()})
		return
	}
	r.Add("distinct_nontrivial", r.Get("schedules"))
}
