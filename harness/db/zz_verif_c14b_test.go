//go:build verif

package db

import (
	"encoding/base64"
	"fmt"
	"os"
	"sort"
	"strings"
	"testing"

	"github.com/couchbase/sync_gateway/base"
	"github.com/couchbase/sync_gateway/verifshim/vreport"
	"github.com/couchbase/sync_gateway/verifshim/vsched"
)

// C14 (part b) — two pushers racing on one document that carries attachments: E1 at database level, points at every
// storage operation (document reads, each attempt of the CAS update, attachment writes and deletes). The document
// starts at 1-a with a.txt = X. Pusher B pushes 2-a [2-a,1-a], pusher A pushes 3-a [3-a,2-a,1-a]; each with its own
// attachment change. Afterwards every attachment the current revision lists must be readable with the right bytes and
// (cross-cluster versioning off, so obsolete bodies are swept) no attachment body may survive that no revision lists.

type c14bScenario struct {
	A string `json:"a"` // what 3-a carries: none | keep-a | b=X | a=Y
	B string `json:"b"` // what 2-a carries: none | keep-a | h=Y | h=X
}

func (s c14bScenario) name() string { return "A(3-a):" + s.A + " || B(2-a):" + s.B }

var c14bX = []byte("hello world")
var c14bY = []byte("another body \x00\x01\xff with bytes")

func c14bAtts(kind string) map[string]any {
	inline := func(b []byte) map[string]any { return map[string]any{"data": base64.StdEncoding.EncodeToString(b)} }
	stubA := map[string]any{"stub": true, "revpos": 1, "digest": Sha1DigestKey(c14bX), "length": len(c14bX)}
	switch kind {
	case "keep-a":
		return map[string]any{"a.txt": stubA}
	case "b=X":
		return map[string]any{"b.txt": inline(c14bX)}
	case "a=Y":
		return map[string]any{"a.txt": inline(c14bY)}
	case "h=Y":
		return map[string]any{"h.txt": inline(c14bY)}
	case "h=X":
		return map[string]any{"h.txt": inline(c14bX)}
	case "keep-a+h=Y":
		return map[string]any{"a.txt": stubA, "h.txt": inline(c14bY)}
	}
	return nil
}

type c14bReplay struct {
	Sc     c14bScenario         `json:"sc"`
	Prefix []vsched.PrefixEntry `json:"prefix"`
	Bound  int                  `json:"bound"`
}

func c14bBuild(t testing.TB, r *vreport.Report, sc c14bScenario) vsched.Scenario {
	MaxSequenceIncrFrequency = 0
	v := newVDB(t, DatabaseContextOptions{})
	v.db.CachedCCVEnabled.Store(false) // the in-memory store always reports cross-cluster versioning, which switches the sweep off
	ctx, coll := v.ctx, v.coll
	const docID = "att1"
	body1 := Body{"v": 1, BodyAttachments: map[string]any{"a.txt": map[string]any{"data": base64.StdEncoding.EncodeToString(c14bX)}}}
	if _, _, err := coll.PutExistingRevWithBody(ctx, docID, body1, []string{"1-a"}, true, ExistingVersionWithUpdateToHLV); err != nil {
		t.Fatalf("setup: %v", err)
	}
	errs := make([]error, 2)
	push := func(i int, hist []string, kind string) func() {
		return func() {
			b := Body{"v": hist[0]}
			if atts := c14bAtts(kind); atts != nil {
				b[BodyAttachments] = atts
			}
			_, _, errs[i] = coll.PutExistingRevWithBody(ctx, docID, b, hist, true, ExistingVersionWithUpdateToHLV)
		}
	}
	threads := []func(){push(0, []string{"3-a", "2-a", "1-a"}, sc.A), push(1, []string{"2-a", "1-a"}, sc.B)}
	H := v.vb.H
	H.Enabled = true
	H.Schedule = true
	return vsched.Scenario{Threads: threads, Cleanup: v.close, Check: func(x *vsched.Exec) map[string]string {
		H.Schedule = false
		H.Enabled = false
		viol := map[string]string{}
		name := sc.name()
		doc, err := coll.GetDocument(ctx, docID, DocUnmarshalAll)
		if err != nil {
			return map[string]string{"C14/race/final-read-failed": err.Error()}
		}
		outcome := fmt.Sprintf("%s|errA=%v errB=%v current=%s", name, errs[0] != nil, errs[1] != nil, doc.GetRevTreeID())
		r.Distinct("race_outcomes", outcome)
		// every revision of this linear history that is still a leaf: its attachments must be readable
		referenced := map[string]bool{}
		for _, leaf := range doc.History.GetLeaves() {
			if leaf != doc.GetRevTreeID() {
				continue
			}
			for attName, meta := range doc.Attachments() {
				m, _ := meta.(map[string]any)
				digest, _ := m["digest"].(string)
				ver, _ := base.ToInt64(m["ver"])
				key := MakeAttachmentKey(int(ver), docID, digest)
				referenced[digest] = true
				data, gerr := coll.GetAttachment(ctx, key)
				if gerr != nil {
					// mechanism: was the body removed by the obsolete-attachment sweep of the OTHER pusher after this
					// revision's pusher had (re)stored or found it?
					cause := "other"
					lastDel, lastAdd := -1, -1
					delThread := -2
					for i, rec := range H.Snapshot() {
						if rec.Key != key || !rec.Applied {
							continue
						}
						if rec.Op == "Delete" {
							lastDel, delThread = i, rec.Thread
						}
						if rec.Op == "AddRaw" {
							lastAdd = i
						}
					}
					// the attempt that committed the current revision: from its read of the document (or, after a lost CAS
					// race, from the failed write that made it start over) to its applied write
					commitIdx, commitThread, attemptStart := -1, -2, -1
					log := H.Snapshot()
					for i, rec := range log {
						if rec.Key == docID && rec.Op == "WriteUpdateWithXattrs.write" && rec.Applied {
							commitIdx, commitThread = i, rec.Thread
						}
					}
					for i := 0; i < commitIdx; i++ {
						rec := log[i]
						if rec.Key == docID && rec.Thread == commitThread && (rec.Op == "WriteUpdateWithXattrs.read" || (rec.Op == "WriteUpdateWithXattrs.write" && !rec.Applied)) {
							attemptStart = i
						}
					}
					_ = lastAdd
					if lastDel >= 0 && delThread >= 0 && delThread != commitThread {
						if lastDel > attemptStart {
							// the other writer's sweep ran on a decision that was stale by then
							cause = "swept-as-obsolete-by-the-other-writer-after-being-listed-again"
						} else {
							cause = "removed-before-the-committing-attempt-started-and-not-stored-again"
						}
					}
					viol["C14/race/listed-attachment-unreadable/"+cause] = fmt.Sprintf("revision %s lists %s (%s) but its body cannot be read: %v [%s; errA=%v errB=%v]", leaf, attName, digest, gerr, name, errs[0], errs[1])
					continue
				}
				if Sha1DigestKey(data) != digest {
					viol["C14/race/attachment-bytes-differ"] = fmt.Sprintf("revision %s attachment %s: stored bytes do not match digest %s [%s]", leaf, attName, digest, name)
				}
			}
		}
		// which bodies were ever listed by a committed revision: X by 1-a, and what each pusher's revision carried if that
		// pusher's document write was applied (a push cancelled as already known commits nothing)
		ever := map[string]bool{Sha1DigestKey(c14bX): true}
		applied := map[int]bool{}
		lastAdder := map[string]int{} // attachment key -> thread whose AddRaw (re)stored the body last, -1 = set-up
		for _, rec := range H.Snapshot() {
			if rec.Key == docID && rec.Op == "WriteUpdateWithXattrs.write" && rec.Applied && rec.Thread >= 0 {
				applied[rec.Thread] = true
			}
			if rec.Op == "AddRaw" && rec.Applied && strings.HasPrefix(rec.Key, "_sync:att") {
				lastAdder[rec.Key] = rec.Thread
			}
		}
		for th, kind := range []string{sc.A, sc.B} {
			if !applied[th] {
				continue
			}
			if strings.Contains(kind, "=Y") {
				ever[Sha1DigestKey(c14bY)] = true
			}
		}
		for _, content := range [][]byte{c14bX, c14bY} {
			digest := Sha1DigestKey(content)
			attKey := MakeAttachmentKey(AttVersion2, docID, digest)
			adder, readded := lastAdder[attKey]
			if _, gerr := coll.GetAttachment(ctx, attKey); gerr == nil && !referenced[digest] && (!ever[digest] || (readded && !applied[adder])) {
				// (re)written ahead of a document write that was then cancelled as already known: this copy was never listed
				// by any revision. The statement speaks of data "no longer referenced"; counted, not judged.
				r.Add("attachment_bodies_left_by_cancelled_pushes", 1)
			} else if gerr == nil && !referenced[digest] {
				var listed []string
				for n := range doc.Attachments() {
					listed = append(listed, n)
				}
				sort.Strings(listed)
				viol["C14/race/orphaned-attachment-body"] = fmt.Sprintf("attachment body %s is still stored although the only leaf %s lists %v [%s; errA=%v errB=%v]", digest, doc.GetRevTreeID(), listed, name, errs[0], errs[1])
			}
		}
		if os.Getenv("VERIF_DEBUG") != "" {
			for _, rec := range H.Snapshot() {
				fmt.Printf("DEBUG op %+v\n", rec)
			}
		}
		for i, e := range errs {
			if e != nil {
				if status, _ := base.ErrorAsHTTPStatus(e); status != 409 {
					viol["C14/race/push-failed"] = fmt.Sprintf("pusher %d: %v [%s]", i, e, name)
				}
			}
		}
		if len(viol) == 0 {
			return nil
		}
		return viol
	}}
}

func TestVerifC14Race(t *testing.T) {
	r := vreport.Begin("C14")
	defer r.Finish(t)
	r.Rule("E1: document at 1-a with a.txt=X; pusher B pushes 2-a and pusher A pushes 3-a (ancestry 3-a,2-a,1-a), each carrying one of {no attachments, a.txt kept as stub, a second name with the same bytes, the same name with other bytes, another attachment}; every schedule with at most B preemptions over all storage operations incl. each attempt of the CAS update and the attachment writes / deletes; non-trivial = distinct (scenario, schedule)")
	r.Assume("cross-cluster versioning off (obsolete attachment bodies are swept); no-conflicts mode; the history is linear so there is one leaf")
	oldFreq := MaxSequenceIncrFrequency
	defer func() { MaxSequenceIncrFrequency = oldFreq }()
	mk := func(sc c14bScenario, bound int) vsched.Config {
		return vsched.Config{
			Name:   sc.name(),
			Bound:  bound,
			New:    func() vsched.Scenario { return c14bBuild(t, r, sc) },
			Filter: c05Filter,
			Whole:  true,
			Replay: func(name string, p []vsched.PrefixEntry) any { return c14bReplay{Sc: sc, Prefix: p, Bound: bound} },
		}
	}
	var rc c14bReplay
	if r.Replaying(&rc) {
		vsched.ReplayOne(r, mk(rc.Sc, rc.Bound), rc.Prefix)
		return
	}
	bound := 2
	if r.Thorough() {
		bound = 3
	}
	r.Note("preemption_bound", bound)
	i := 0
	for _, a := range []string{"none", "keep-a", "b=X", "a=Y"} {
		for _, b := range []string{"none", "keep-a", "h=Y", "h=X", "keep-a+h=Y"} {
			if a == "keep-a" && !strings.Contains(b, "keep-a") {
				continue // a stub for an attachment the parent revision does not have is an invalid push
			}
			i++
			if !r.Mine(i) || r.Expired() {
				continue
			}
			if vsched.FreePass(r.Add, func() vsched.Scenario { return c14bBuild(t, r, c14bScenario{A: a, B: b}) }) {
				continue // race-detector pass: the same thread bodies, free-running, in a binary built with -race
			}
			vsched.Explore(r, mk(c14bScenario{A: a, B: b}, bound))
			r.Add("scenarios", 1)
		}
	}
	if vsched.FreeRuns() == 0 {
		r.Add("distinct_nontrivial", r.Get("schedules"))
	}
	_ = strings.Join
}
