//go:build verif

package db

import (
	"fmt"
	"sort"
	"strings"
	"testing"

	"github.com/couchbase/sync_gateway/base"
	"github.com/couchbase/sync_gateway/channels"
	"github.com/couchbase/sync_gateway/verifshim/vreport"
	"github.com/couchbase/sync_gateway/verifshim/vstore"
)

// C18 (part b) — resync of single documents at database level in configurations the REST-level part does not reach:
// a sync function that routes on a user xattr, conflicting leaves, and a write that has to be retried because the
// document's CAS moved (forced at the first attempt). After ResyncDocument the channels of the current revision must be
// what the new function assigns to (body, user xattr), a second resync must change nothing.

type c18bCase struct {
	Xattr    string `json:"xattr"`     // value of the user xattr ("" = absent)
	BodyChan string `json:"body_chan"` // doc.chan
	Regen    bool   `json:"regen"`
	CasRetry bool   `json:"cas_retry"`
	Mutate   string `json:"mutate"` // what moves the CAS when CasRetry: "" (spurious) | other-xattr
	// Shape of the document's revision tree: "" one revision | "remote-won" a conflicting revision replicated from
	// another Sync Gateway won against the local second revision (which conflict resolution tombstoned, without a body)
	// | "all-deleted" the same, and the winning branch was then deleted (the document is deleted on every branch)
	Shape string `json:"shape,omitempty"`
}

const c18bFnOld = `function (doc, oldDoc, meta) { channel("old_" + doc.chan); }`
const c18bFnNew = `function (doc, oldDoc, meta) { if (meta.xattrs.vchan !== undefined) { channel("x_" + meta.xattrs.vchan); } else { channel("b_" + doc.chan); } }`

func c18bRun(t testing.TB, r *vreport.Report, c c18bCase, n int) {
	MaxSequenceIncrFrequency = 0
	v := newVDB(t, DatabaseContextOptions{UserXattrKey: "vchan"})
	defer v.close()
	ctx, coll := v.ctx, v.coll
	coll.ChannelMapper = channels.NewChannelMapper(ctx, c18bFnOld, v.db.Options.JavascriptTimeout)
	docID := fmt.Sprintf("c18b-%d", n)
	if _, _, err := coll.Put(ctx, docID, Body{"chan": c.BodyChan}); err != nil {
		t.Fatalf("put: %v", err)
	}
	if c.Xattr != "" {
		_, cas, err := coll.dataStore.GetXattrs(ctx, docID, []string{base.SyncXattrName})
		if err != nil {
			t.Fatalf("get xattrs: %v", err)
		}
		if _, err := coll.dataStore.UpdateXattrs(ctx, docID, 0, cas, map[string][]byte{"vchan": []byte(`"` + c.Xattr + `"`)}, nil); err != nil {
			t.Fatalf("set user xattr: %v", err)
		}
		// import the xattr change (metadata-only) so that the document is a gateway document again
		if _, err := coll.GetDocument(ctx, docID, DocUnmarshalAll); err != nil {
			t.Fatalf("import: %v", err)
		}
	}
	if c.Shape != "" {
		rev1 := ""
		if d, err := coll.GetDocument(ctx, docID, DocUnmarshalSync); err == nil {
			rev1 = d.GetRevTreeID()
		}
		if _, _, err := coll.Put(ctx, docID, Body{BodyRev: rev1, "chan": c.BodyChan, "v": 2}); err != nil {
			t.Fatalf("put rev 2: %v", err)
		}
		cur, err := coll.GetDocument(ctx, docID, DocUnmarshalSync)
		if err != nil {
			t.Fatalf("read: %v", err)
		}
		incoming := &HybridLogicalVector{SourceID: "cmVtb3Rl", Version: cur.HLV.Version + 1000000000000, PreviousVersions: HLVVersions{}}
		newDoc := &Document{ID: docID, RevID: "2-vvc", HLV: incoming}
		newDoc.UpdateBody(Body{"chan": "rc"})
		if _, _, _, err := coll.PutExistingCurrentVersion(ctx, PutDocOptions{NewDoc: newDoc, RevTreeHistory: []string{"2-vvc", rev1}, NewDocHLV: incoming, ISGRWrite: true,
			ConflictResolver: NewConflictResolver(DefaultLWWConflictResolutionType, nil)}); err != nil {
			t.Fatalf("replicated conflicting revision: %v", err)
		}
		if c.Shape == "all-deleted" {
			if _, _, err := coll.DeleteDoc(ctx, docID, DocVersion{RevTreeID: "2-vvc"}); err != nil {
				t.Fatalf("delete of the winning branch: %v", err)
			}
		}
	}
	coll.ChannelMapper = channels.NewChannelMapper(ctx, c18bFnNew, v.db.Options.JavascriptTimeout)
	want := "b_" + c.BodyChan
	if c.Xattr != "" {
		want = "x_" + c.Xattr
	}
	switch c.Shape {
	case "remote-won":
		want = "b_rc"
	case "all-deleted":
		want = "" // a document deleted on every branch is in no channel
	}
	H := v.vb.H
	if c.CasRetry {
		fired := false
		H.Enabled = true
		H.Select = func(op, key string) bool { return key == docID }
		H.Plan = func(seq int, op, key string, write bool) vstore.Injection {
			if op == "WriteUpdateWithXattrs.write" && !fired {
				fired = true
				if c.Mutate == "other-xattr" {
					// an application touches an unrelated xattr of the document between resync's read and its write
					H.Enabled = false
					_, cas, _ := coll.dataStore.GetXattrs(ctx, docID, []string{base.SyncXattrName})
					_, _ = coll.dataStore.UpdateXattrs(ctx, docID, 0, cas, map[string][]byte{"appdata": []byte(`{"n":1}`)}, nil)
					H.Enabled = true
					return vstore.None // the store itself now reports the CAS mismatch
				}
				return vstore.CasMismatch
			}
			return vstore.None
		}
	}
	err := coll.ResyncDocument(ctx, docID, nil, c.Regen)
	H.Plan, H.Select, H.Enabled = nil, nil, false
	tag := fmt.Sprintf("xattr=%v/regenerate=%v/cas_retry=%v/%s", c.Xattr != "", c.Regen, c.CasRetry, c.Mutate)
	if c.Shape != "" {
		tag += "/" + c.Shape
	}
	if err != nil && err != base.ErrUpdateCancel {
		r.Violate("C18/document/resync-failed/"+tag, fmt.Sprintf("%v; %+v", err, c), c)
		return
	}
	active := func() string {
		doc, gerr := coll.GetDocument(ctx, docID, DocUnmarshalAll)
		if gerr != nil {
			return "unreadable: " + gerr.Error()
		}
		var l []string
		for name, rem := range doc.Channels {
			if rem == nil {
				l = append(l, name)
			}
		}
		sort.Strings(l)
		return strings.Join(l, ",")
	}
	if c.Shape == "all-deleted" {
		// resync leaves deleted documents alone (their channel assignment only routes the deletion itself); what is
		// required of it here is that it neither fails nor revives a grant or channel of the revisions underneath
		if got := active(); strings.Contains(got, "b_bc") || strings.Contains(got, "b_rc") {
			r.Violate("C18/document/deleted-document-in-a-live-revisions-channel/"+tag, fmt.Sprintf("after resync the deleted document is in [%s]; %+v", got, c), c)
			return
		}
	} else if got := active(); got != want {
		r.Violate("C18/document/channels-wrong/"+tag, fmt.Sprintf("after resync the document is in [%s], the new function assigns [%s]; %+v", got, want, c), c)
		return
	}
	// a second resync changes nothing
	before, _, _ := coll.dataStore.GetXattrs(ctx, docID, []string{base.SyncXattrName})
	_ = coll.ResyncDocument(ctx, docID, nil, false)
	after, _, _ := coll.dataStore.GetXattrs(ctx, docID, []string{base.SyncXattrName})
	if string(before[base.SyncXattrName]) != string(after[base.SyncXattrName]) {
		r.Violate("C18/document/second-resync-changed-document/"+tag, fmt.Sprintf("before %s after %s; %+v", before[base.SyncXattrName], after[base.SyncXattrName], c), c)
	}
	r.Distinct("document_outcomes", tag)
}

func TestVerifC18Document(t *testing.T) {
	r := vreport.Begin("C18")
	defer r.Finish(t)
	r.Rule("(b) ResyncDocument at database level: document routed by its body or by a user xattr (present / absent) x regenerate_sequences x {write succeeds first time, first attempt loses a forced CAS race, an application updates another xattr of the document between resync's read and write}; channels afterwards = new function applied to (body, user xattr); second resync changes nothing; non-trivial = distinct case")
	r.Assume("user xattr routing is driven through the database-level option (the REST layer of this CE build does not expose it)")
	oldFreq := MaxSequenceIncrFrequency
	defer func() { MaxSequenceIncrFrequency = oldFreq }()
	var rc c18bCase
	if r.Replaying(&rc) {
		c18bRun(t, r, rc, 0)
		return
	}
	n := 0
	for _, xattr := range []string{"", "teamA"} {
		for _, regen := range []bool{false, true} {
			for _, retry := range []string{"none", "forced", "other-xattr"} {
				n++
				if !r.Mine(n) {
					continue
				}
				c := c18bCase{Xattr: xattr, BodyChan: "bc", Regen: regen, CasRetry: retry != "none"}
				if retry == "other-xattr" {
					c.Mutate = "other-xattr"
				}
				c18bRun(t, r, c, n)
				r.Add("evaluations", 1)
				r.Add("distinct_nontrivial", 1)
				r.Sample(c)
			}
		}
	}
	for _, shape := range []string{"remote-won", "all-deleted"} {
		for _, regen := range []bool{false, true} {
			for _, retry := range []bool{false, true} {
				n++
				if !r.Mine(n) {
					continue
				}
				c := c18bCase{BodyChan: "bc", Regen: regen, CasRetry: retry, Shape: shape}
				c18bRun(t, r, c, n)
				r.Add("evaluations", 1)
				r.Add("distinct_nontrivial", 1)
				r.Sample(c)
			}
		}
	}
}
