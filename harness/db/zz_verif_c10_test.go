//go:build verif

package db

import (
	"context"
	"encoding/json"
	"fmt"
	"sort"
	"strings"
	"testing"
	"time"

	"github.com/couchbase/sync_gateway/verifshim/vreport"
	"github.com/couchbase/sync_gateway/verifshim/vstate"
)

// C10 — version vectors order revisions soundly and survive encoding.
// (a) E2 over three replicas of one document. Each replica holds a real HybridLogicalVector and a ground
//     truth classic version vector (source -> highest version seen). Events: local edit (real AddVersion),
//     pull r<-s (real IsInConflict, then by verdict UpdateWithIncomingHLV / nothing / one of the three
//     real conflict resolutions: remote wins, local wins, merge).
// (b) E3 codec round trips over every structurally valid vector of a small universe and every short token
//     string for the wire parser.

type c10Event struct {
	Op  string `json:"op"` // edit | pull
	R   int    `json:"r"`
	S   int    `json:"s,omitempty"`
	Res string `json:"res,omitempty"` // lww | merge | remote | local (used only if the verdict is conflict; remote/local only in replays)
}

var c10Src = []string{"a", "b", "c"}

type c10Rep struct {
	hlv   *HybridLogicalVector
	truth map[string]uint64
}

type c10Inst struct {
	reps  [3]*c10Rep
	clock   uint64
	n       int
	mutual  int
	tainted bool // a violation was already reported in this history; everything after it is a consequence
}

func (in *c10Inst) Close() {}

func c10RealMax(h *HybridLogicalVector) map[string]uint64 {
	m := map[string]uint64{}
	if h.SourceID != "" {
		m[h.SourceID] = h.Version
	}
	for s, v := range h.MergeVersions {
		if v > m[s] {
			m[s] = v
		}
	}
	for s, v := range h.PreviousVersions {
		if v > m[s] {
			m[s] = v
		}
	}
	return m
}

func c10ModelVerdict(local, incoming *c10Rep) HLVConflictStatus {
	lcvS, lcvV := local.hlv.GetCurrentVersion()
	icvS, icvV := incoming.hlv.GetCurrentVersion()
	localSeenIncoming := local.truth[icvS] >= icvV
	incomingSeenLocal := incoming.truth[lcvS] >= lcvV
	if localSeenIncoming {
		return HLVNoConflictRevAlreadyPresent
	}
	if incomingSeenLocal {
		return HLVNoConflict
	}
	lm, im := local.hlv.MergeVersions, incoming.hlv.MergeVersions
	if len(lm) != 0 && len(im) != 0 && len(lm) == len(im) {
		same := true
		for k, v := range lm {
			if im[k] != v {
				same = false
			}
		}
		if same {
			return HLVNoConflict
		}
	}
	return HLVConflict
}

func (in *c10Inst) Enabled() []c10Event {
	var ev []c10Event
	if in.tainted {
		return nil // do not expand histories past their first violation (root causes only)
	}
	for r := 0; r < in.n; r++ {
		ev = append(ev, c10Event{Op: "edit", R: r})
	}
	for r := 0; r < in.n; r++ {
		for s := 0; s < in.n; s++ {
			if r == s || in.reps[s] == nil {
				continue
			}
			if in.reps[r] != nil && c10ModelVerdict(in.reps[r], in.reps[s]) == HLVConflict {
				// resolutions: the default last-write-wins policy (both peers pick the higher current version, so it
				// is "remote wins" or "local wins" depending on the values) and a merge
				for _, res := range []string{"lww", "merge"} {
					ev = append(ev, c10Event{Op: "pull", R: r, S: s, Res: res})
				}
			} else {
				ev = append(ev, c10Event{Op: "pull", R: r, S: s})
			}
		}
	}
	return ev
}

func c10union(a, b map[string]uint64) map[string]uint64 {
	m := map[string]uint64{}
	for k, v := range a {
		m[k] = v
	}
	for k, v := range b {
		if v > m[k] {
			m[k] = v
		}
	}
	return m
}

func verdictName(v HLVConflictStatus) string {
	switch v {
	case HLVNoConflict:
		return "accept"
	case HLVConflict:
		return "conflict"
	case HLVNoConflictRevAlreadyPresent:
		return "already-known"
	}
	return fmt.Sprintf("verdict(%d)", v)
}

func c10Pos(h *HybridLogicalVector, src string, val uint64) string {
	if h == nil {
		return ""
	}
	if h.SourceID == src && (val == 0 || h.Version == val) {
		return "cv"
	}
	if v, ok := h.MergeVersions[src]; ok && (val == 0 || v == val) {
		return "mv"
	}
	if v, ok := h.PreviousVersions[src]; ok && (val == 0 || v == val) {
		return "pv"
	}
	return ""
}

func (in *c10Inst) Apply(e c10Event) map[string]string {
	if in.tainted {
		in.applyInner(e)
		return nil
	}
	v := in.applyInner(e)
	if len(v) > 0 {
		in.tainted = true
	}
	return v
}

func (in *c10Inst) applyInner(e c10Event) map[string]string {
	viol := map[string]string{}
	var localBefore, incomingBefore *HybridLogicalVector
	if e.Op == "pull" && in.reps[e.S] != nil {
		incomingBefore = in.reps[e.S].hlv.Copy()
		if in.reps[e.R] != nil {
			localBefore = in.reps[e.R].hlv.Copy()
		}
	}
	before := [3]map[string]uint64{}
	for i, rp := range in.reps {
		if rp != nil {
			before[i] = c10RealMax(rp.hlv)
		}
	}
	opKind := e.Op
	switch e.Op {
	case "edit":
		rp := in.reps[e.R]
		if rp == nil {
			rp = &c10Rep{hlv: NewHybridLogicalVector(), truth: map[string]uint64{}}
			in.reps[e.R] = rp
		}
		in.clock++
		src := c10Src[e.R]
		prev, had := rp.hlv.GetValue(src)
		if err := rp.hlv.AddVersion(Version{SourceID: src, Value: in.clock}); err != nil {
			viol["C10/hlv/local-edit-rejected"] = fmt.Sprintf("AddVersion(%d@%s) on %s: %v", in.clock, src, rp.hlv.HLVDebugString(), err)
		}
		rp.truth[src] = in.clock
		if s, v := rp.hlv.GetCurrentVersion(); s != src || v != in.clock || (had && prev >= v) {
			viol["C10/hlv/local-version-not-increasing"] = fmt.Sprintf("after local edit cv=%d@%s, previous value for source %d", v, s, prev)
		}
	case "pull":
		src := in.reps[e.S]
		incoming := &c10Rep{hlv: src.hlv.Copy(), truth: src.truth}
		if in.reps[e.R] == nil {
			h := NewHybridLogicalVector()
			h.UpdateWithIncomingHLV(incoming.hlv)
			in.reps[e.R] = &c10Rep{hlv: h, truth: c10union(nil, src.truth)}
			opKind = "pull-new"
			break
		}
		local := in.reps[e.R]
		want := c10ModelVerdict(local, incoming)
		got := IsInConflict(context.Background(), local.hlv, incoming.hlv)
		// Degenerate case outside "edit / pull / merge" histories: after remote-wins / local-wins resolutions on
		// two replicas in opposite directions each side has seen the other's current version although the current
		// versions differ. The property text does not say which verdict applies; both already-known and accept
		// are tolerated (accept lets the replicas converge).
		lS, lV := local.hlv.GetCurrentVersion()
		iS, iV := incoming.hlv.GetCurrentVersion()
		mutual := !(lS == iS && lV == iV) && local.truth[iS] >= iV && incoming.truth[lS] >= lV
		if mutual {
			in.mutual++
		}
		if got != want && !(mutual && got == HLVNoConflict) {
			viol[fmt.Sprintf("C10/verdict/reported-%s-expected-%s", verdictName(got), verdictName(want))] = fmt.Sprintf(
				"IsInConflict(local=%s, incoming=%s) = %s; ground truth local has seen %v, incoming has seen %v => %s",
				local.hlv.HLVDebugString(), incoming.hlv.HLVDebugString(), verdictName(got), local.truth, incoming.truth, verdictName(want))
		}
		opKind = "pull-" + verdictName(got)
		switch got {
		case HLVNoConflictRevAlreadyPresent:
		case HLVNoConflict:
			if !local.hlv.EqualCV(incoming.hlv) {
				local.hlv.UpdateWithIncomingHLV(incoming.hlv)
				local.truth = c10union(local.truth, src.truth)
			}
		case HLVConflict:
			res := e.Res
			if res == "lww" || res == "" {
				// DefaultLWWConflictResolutionType: remote wins iff its current version value is higher
				if incoming.hlv.Version > local.hlv.Version {
					res = "remote"
				} else {
					res = "local"
				}
			}
			opKind += "-" + res
			switch res {
			case "local":
				nh := incoming.hlv.Copy()
				nh.UpdateWithIncomingHLV(local.hlv.Copy())
				local.hlv = nh
				local.truth = c10union(local.truth, src.truth)
			case "merge":
				in.clock++
				nh := local.hlv.Copy()
				if err := nh.MergeWithIncomingHLV(Version{SourceID: c10Src[e.R], Value: in.clock}, incoming.hlv); err != nil {
					viol["C10/hlv/merge-rejected"] = err.Error()
				}
				local.hlv = nh
				local.truth = c10union(local.truth, src.truth)
				local.truth[c10Src[e.R]] = in.clock
			default: // remote wins (also the path taken when no resolution is named)
				nh := local.hlv.Copy()
				nh.UpdateWithIncomingHLV(incoming.hlv)
				local.hlv = nh
				local.truth = c10union(local.truth, src.truth)
			}
		}
	}
	// state invariants on every replica
	for i, rp := range in.reps {
		if rp == nil {
			continue
		}
		real := c10RealMax(rp.hlv)
		lostFP := ""
		for s, tv := range rp.truth {
			rv, ok := real[s]
			if !ok || rv < tv {
				kept := c10Pos(rp.hlv, s, 0)
				if kept == "" {
					kept = "absent"
				}
				origin := "unknown"
				if p := c10Pos(localBefore, s, tv); p != "" {
					origin = "local-" + p
				} else if p := c10Pos(incomingBefore, s, tv); p != "" {
					origin = "incoming-" + p
				}
				lostFP = fmt.Sprintf("C10/hlv/version-lost/%s/kept-older-in-%s/newer-was-in-%s", opKind, kept, origin)
				viol[lostFP] = fmt.Sprintf("after %+v replica %s vector %s no longer records %d@%s (has %d); it has seen %v", e, c10Src[i], rp.hlv.HLVDebugString(), tv, s, rv, rp.truth)
			} else if rv > tv {
				viol["C10/hlv/version-invented/"+opKind] = fmt.Sprintf("after %+v replica %s vector %s records %d@%s but has only seen %v", e, c10Src[i], rp.hlv.HLVDebugString(), rv, s, rp.truth)
			}
			if gv, found := rp.hlv.GetValue(s); !found || gv != tv {
				if _, dup := viol[lostFP]; !dup && rv == tv {
					viol["C10/hlv/getvalue-not-max/"+opKind] = fmt.Sprintf("after %+v replica %s vector %s: GetValue(%s)=%d,%v but highest recorded/seen is %d", e, c10Src[i], rp.hlv.HLVDebugString(), s, gv, found, tv)
				}
			}
		}
		for s, rv := range real {
			if _, ok := rp.truth[s]; !ok {
				viol["C10/hlv/version-invented/"+opKind] = fmt.Sprintf("after %+v replica %s vector %s records %d@%s never seen (%v)", e, c10Src[i], rp.hlv.HLVDebugString(), rv, s, rp.truth)
			}
			if b, ok := before[i][s]; ok && rv < b && lostFP == "" {
				viol["C10/hlv/source-value-lowered/"+opKind] = fmt.Sprintf("after %+v replica %s source %s went from %d to %d (%s)", e, c10Src[i], s, b, rv, rp.hlv.HLVDebugString())
			}
		}
		for s := range rp.hlv.PreviousVersions {
			if s == rp.hlv.SourceID {
				viol["C10/hlv/source-in-cv-and-pv/"+opKind] = fmt.Sprintf("after %+v replica %s: %s", e, c10Src[i], rp.hlv.HLVDebugString())
			}
			if _, ok := rp.hlv.MergeVersions[s]; ok {
				viol["C10/hlv/source-in-mv-and-pv/"+opKind] = fmt.Sprintf("after %+v replica %s: %s", e, c10Src[i], rp.hlv.HLVDebugString())
			}
		}
		// every reachable vector must survive both codecs
		if msg := c10CodecCheck(rp.hlv); msg != "" {
			viol["C10/codec/reachable-vector/"+strings.SplitN(msg, ":", 2)[0]] = msg
		}
	}
	if len(viol) == 0 {
		return nil
	}
	return viol
}

func c10mapsEq(a, b HLVVersions) bool {
	if len(a) != len(b) {
		return false
	}
	for k, v := range a {
		if bv, ok := b[k]; !ok || bv != v {
			return false
		}
	}
	return true
}

func c10Equal(a, b *HybridLogicalVector) bool {
	return a.SourceID == b.SourceID && a.Version == b.Version && c10mapsEq(a.MergeVersions, b.MergeVersions) && c10mapsEq(a.PreviousVersions, b.PreviousVersions)
}

func c10Wire(h *HybridLogicalVector) string {
	s := h.GetCurrentVersionString()
	hist := h.ToHistoryForHLV()
	if hist != "" {
		if strings.Contains(hist, ";") {
			s += "," + hist
		} else {
			s += ";" + hist
		}
	}
	return s
}

// c10CodecCheck returns "" if h survives the stored and wire encodings, else "<kind>: detail".
func c10CodecCheck(h *HybridLogicalVector) string {
	b, err := json.Marshal(h)
	if err != nil {
		return "stored-marshal: " + err.Error()
	}
	var back HybridLogicalVector
	if err := json.Unmarshal(b, &back); err != nil {
		return fmt.Sprintf("stored-unmarshal: %s: %v", b, err)
	}
	if !c10Equal(h, &back) {
		return fmt.Sprintf("stored-roundtrip: %s -> %s -> %s", h.HLVDebugString(), b, back.HLVDebugString())
	}
	for name, m := range map[string]HLVVersions{"pv": h.PreviousVersions, "mv": h.MergeVersions} {
		mm, err := PersistedDeltasToMap(VersionsToDeltas(m))
		if err != nil || !c10mapsEq(m, mm) {
			return fmt.Sprintf("delta-roundtrip: %s %v -> %v -> %v (%v)", name, m, VersionsToDeltas(m), mm, err)
		}
	}
	w := c10Wire(h)
	p, legacy, err := extractHLVFromBlipString(w)
	if err != nil {
		return fmt.Sprintf("wire-rejected: %s -> %q: %v", h.HLVDebugString(), w, err)
	}
	if len(legacy) != 0 || !c10Equal(h, p) {
		return fmt.Sprintf("wire-roundtrip: %s -> %q -> %s legacy=%v", h.HLVDebugString(), w, p.HLVDebugString(), legacy)
	}
	return ""
}

func (in *c10Inst) Canon() string {
	// rename version numbers by rank (order-isomorphic states have equal futures: the code only compares values)
	vals := map[uint64]bool{}
	for _, rp := range in.reps {
		if rp == nil {
			continue
		}
		vals[rp.hlv.Version] = true
		for _, v := range rp.hlv.MergeVersions {
			vals[v] = true
		}
		for _, v := range rp.hlv.PreviousVersions {
			vals[v] = true
		}
		for _, v := range rp.truth {
			vals[v] = true
		}
	}
	sorted := make([]uint64, 0, len(vals))
	for v := range vals {
		sorted = append(sorted, v)
	}
	sort.Slice(sorted, func(i, j int) bool { return sorted[i] < sorted[j] })
	rank := map[uint64]int{}
	for i, v := range sorted {
		rank[v] = i + 1
	}
	mp := func(m map[string]uint64) string {
		keys := make([]string, 0, len(m))
		for k := range m {
			keys = append(keys, k)
		}
		sort.Strings(keys)
		var b strings.Builder
		for _, k := range keys {
			fmt.Fprintf(&b, "%s%d,", k, rank[m[k]])
		}
		return b.String()
	}
	var b strings.Builder
	for _, rp := range in.reps {
		if rp == nil {
			b.WriteString("-|")
			continue
		}
		mvnil := "M"
		if rp.hlv.MergeVersions == nil {
			mvnil = "m"
		}
		fmt.Fprintf(&b, "%s%d;%s%s;%s;T%s|", rp.hlv.SourceID, rank[rp.hlv.Version], mvnil, mp(rp.hlv.MergeVersions), mp(rp.hlv.PreviousVersions), mp(rp.truth))
	}
	return b.String()
}

type c10Replay struct {
	Kind string     `json:"kind"`
	N    int        `json:"n,omitempty"`
	Hist []c10Event `json:"hist,omitempty"`
	Vec  []string   `json:"vec,omitempty"`
	Str  string     `json:"str,omitempty"`
}

// ---- (b) codec enumeration

func c10EnumVectors(maxVal uint64, f func(h *HybridLogicalVector, desc []string)) {
	for cs := 0; cs < 3; cs++ {
		for cv := uint64(1); cv <= maxVal; cv++ {
			others := []int{}
			for s := 0; s < 3; s++ {
				if s != cs {
					others = append(others, s)
				}
			}
			// placement of each other source: 0 absent, 1..maxVal PV value, maxVal+1..2maxVal MV value
			opts := int(2*maxVal + 1)
			for p0 := 0; p0 < opts; p0++ {
				for p1 := 0; p1 < opts; p1++ {
					// cv source may additionally be in MV with a smaller value (previous local cv of a merge)
					for cm := uint64(0); cm < cv; cm++ {
						h := NewHybridLogicalVector()
						h.SourceID, h.Version = c10Src[cs], cv
						desc := []string{fmt.Sprintf("cv=%d@%s", cv, c10Src[cs])}
						for i, p := range []int{p0, p1} {
							s := c10Src[others[i]]
							switch {
							case p == 0:
							case uint64(p) <= maxVal:
								h.PreviousVersions[s] = uint64(p)
								desc = append(desc, fmt.Sprintf("pv=%d@%s", p, s))
							default:
								h.MergeVersions[s] = uint64(p) - maxVal
								desc = append(desc, fmt.Sprintf("mv=%d@%s", uint64(p)-maxVal, s))
							}
						}
						if cm > 0 {
							h.MergeVersions[c10Src[cs]] = cm
							desc = append(desc, fmt.Sprintf("mv=%d@%s", cm, c10Src[cs]))
						}
						f(h, desc)
					}
				}
			}
		}
	}
}

// independent reading of a wire string made of tokens (no whitespace): returns ok=false if it must be rejected.
func c10SpecParse(s string) (cv Version, mv, pv map[string]uint64, legacy []string, ok bool) {
	mv, pv = map[string]uint64{}, map[string]uint64{}
	if s == "" {
		return cv, nil, nil, nil, false
	}
	secs := strings.Split(s, ";")
	if len(secs) > 2 {
		return cv, nil, nil, nil, false
	}
	parseEl := func(el string) (Version, bool, bool) { // version, isLegacy, ok
		if el == "" {
			return Version{}, false, false
		}
		isLeg := func(el string) bool {
			i := strings.Index(el, "-")
			if i <= 0 {
				return false
			}
			n := 0
			for _, c := range el[:i] {
				if c < '0' || c > '9' {
					return false
				}
				n = n*10 + int(c-'0')
			}
			return n >= 1
		}
		if i := strings.Index(el, "@"); i >= 0 {
			var v uint64
			okHex := i > 0
			for _, c := range el[:i] {
				switch {
				case c >= '0' && c <= '9':
					v = v*16 + uint64(c-'0')
				case c >= 'a' && c <= 'f':
					v = v*16 + uint64(c-'a'+10)
				default:
					okHex = false
				}
			}
			if okHex {
				return Version{SourceID: el[i+1:], Value: v}, false, true
			}
		}
		// not a version: a legacy revision id "<gen>-<digest>" is tolerated (any digest text)
		if isLeg(el) {
			return Version{}, true, true
		}
		return Version{}, false, false
	}
	for i, el := range strings.Split(secs[0], ",") {
		v, isLegacy, good := parseEl(el)
		if !good || isLegacy {
			return cv, nil, nil, nil, false
		}
		if i == 0 {
			cv = v
			continue
		}
		if _, dup := mv[v.SourceID]; dup || v == cv {
			return cv, nil, nil, nil, false
		}
		mv[v.SourceID] = v.Value
	}
	if len(secs) == 2 && secs[1] != "" {
		for _, el := range strings.Split(secs[1], ",") {
			v, isLegacy, good := parseEl(el)
			if !good {
				return cv, nil, nil, nil, false
			}
			if isLegacy {
				legacy = append(legacy, el)
				continue
			}
			if _, dup := pv[v.SourceID]; dup {
				return cv, nil, nil, nil, false
			}
			if _, dup := mv[v.SourceID]; dup {
				return cv, nil, nil, nil, false
			}
			pv[v.SourceID] = v.Value
		}
	}
	return cv, mv, pv, legacy, true
}

func c10CheckString(r *vreport.Report, s string) {
	rep := c10Replay{Kind: "string", Str: s}
	h, legacy, err := extractHLVFromBlipString(s)
	cv, mv, pv, wantLegacy, ok := c10SpecParse(s)
	shape := c10StrShape(s)
	if !ok {
		r.Add("strings_malformed", 1)
		if err == nil {
			r.Violate("C10/wire/malformed-accepted/"+shape, fmt.Sprintf("%q accepted as %s legacy=%v", s, h.HLVDebugString(), legacy), rep)
		}
		return
	}
	r.Add("strings_wellformed", 1)
	if err != nil {
		r.Violate("C10/wire/wellformed-rejected/"+shape, fmt.Sprintf("%q rejected: %v", s, err), rep)
		return
	}
	if h.SourceID != cv.SourceID || h.Version != cv.Value || !c10mapsEq(h.MergeVersions, mv) || !c10mapsEq(h.PreviousVersions, pv) || fmt.Sprint(legacy) != fmt.Sprint(wantLegacy) {
		r.Violate("C10/wire/misparsed/"+shape, fmt.Sprintf("%q parsed as %s legacy=%v; want cv=%v mv=%v pv=%v legacy=%v", s, h.HLVDebugString(), legacy, cv, mv, pv, wantLegacy), rep)
		return
	}
	// accepted => re-serialises to an equivalent vector
	w := c10Wire(h)
	h2, _, err := extractHLVFromBlipString(w)
	if err != nil || !c10Equal(h, h2) {
		r.Violate("C10/wire/reserialise/"+shape, fmt.Sprintf("%q -> %s -> %q -> %v (%v)", s, h.HLVDebugString(), w, h2, err), rep)
	}
}

func c10StrShape(s string) string {
	s = strings.NewReplacer("1@a", "V", "2@b", "V", "3@c", "V", "2@a", "V", "1-abc", "L", "zz", "J").Replace(s)
	return s
}

func TestVerifC10(t *testing.T) {
	r := vreport.Begin("C10")
	defer r.Finish(t)
	r.Rule("(a) BFS over edit/pull/resolve events on 2 and 3 replicas holding real HybridLogicalVectors, canonical state = per-replica (cv, mv, pv, ground-truth vector) with version numbers renamed by rank; (b) every structurally valid vector over sources {a,b,c} and values 1..V through the stored, delta and wire codecs, every token string up to T tokens through the wire parser against an independent reader. non-trivial = distinct canonical state / vector / string")
	r.Assume("local versions come from a clock that is strictly above every value already present (as documentUpdateFunc's HLC floor guarantees); pulls are atomic; PV compaction (time based, off by default) is not exercised")

	mk := func(n, depth int) vstate.Config[c10Event] {
		return vstate.Config[c10Event]{
			Name:       fmt.Sprintf("replicas=%d", n),
			New:        func() vstate.Instance[c10Event] { return &c10Inst{n: n} },
			MaxDepth:   depth,
			ShardDepth: 2,
			Replay: func(name string, hist []c10Event) any {
				return c10Replay{Kind: "history", N: n, Hist: hist}
			},
		}
	}
	var rc c10Replay
	if r.Replaying(&rc) {
		switch rc.Kind {
		case "history":
			vstate.ReplayHistory(r, mk(rc.N, len(rc.Hist)), rc.Hist)
		case "string":
			c10CheckString(r, rc.Str)
		case "vector":
			c10EnumVectors(4, func(h *HybridLogicalVector, desc []string) {
				if strings.Join(desc, " ") == strings.Join(rc.Vec, " ") {
					if msg := c10CodecCheck(h); msg != "" {
						r.Violate("C10/codec/enumerated-vector/"+strings.SplitN(msg, ":", 2)[0], msg, rc)
					}
				}
			})
		}
		r.Add("evaluations", 1)
		return
	}

	d3, d2 := 8, 10
	V := uint64(3)
	T := 5
	if r.Thorough() {
		d3, d2, V, T = 9, 11, 4, 6
	}
	r.Note("depth_3_replicas", d3)
	r.Note("depth_2_replicas", d2)
	r.Note("codec_values", V)
	r.Note("wire_tokens", T)

	// (b) codecs first (cheap)
	idx := 0
	c10EnumVectors(V, func(h *HybridLogicalVector, desc []string) {
		idx++
		if !r.Mine(idx) {
			return
		}
		r.Add("vectors", 1)
		r.Add("evaluations", 1)
		if msg := c10CodecCheck(h); msg != "" {
			r.Violate("C10/codec/enumerated-vector/"+strings.SplitN(msg, ":", 2)[0], msg, c10Replay{Kind: "vector", Vec: desc})
		}
		if idx%977 == 0 {
			r.Sample(map[string]any{"vector": desc, "wire": c10Wire(h)})
		}
	})
	tokens := []string{"1@a", "2@b", "3@c", "2@a", ",", ";", "1-abc", "zz"}
	sidx := 0
	var gen func(prefix string, n int)
	gen = func(prefix string, n int) {
		if n > 0 {
			sidx++
			if r.Mine(sidx) {
				c10CheckString(r, prefix)
				r.Add("strings", 1)
				r.Add("evaluations", 1)
				if sidx%49999 == 0 {
					r.Sample(map[string]any{"wire_string": prefix})
				}
			}
		}
		if n == T {
			return
		}
		for _, tk := range tokens {
			gen(prefix+tk, n+1)
		}
	}
	gen("", 0)
	c10CheckString(r, "")

	// (a) state machines
	vstate.Explore(r, mk(2, d2))
	vstate.Explore(r, mk(3, d3))
	r.Add("distinct_nontrivial", r.Get("states")+r.Get("vectors")+r.Get("strings"))
}

// ---- (c) versions generated by the real write path strictly increase per source, whatever the stored vector says
// about our source and however far the node's clock lags behind it.

type c10LocalCase struct {
	Place  string `json:"place"`  // where the stored vector records our source: none | pv | mv
	Future bool   `json:"future"` // the recorded value is ahead of this node's clock (clock stepped back / lagging node of the same cluster)
	Edits  int    `json:"edits"`
	Del    bool   `json:"del"` // the last local edit is a delete
}

func c10RunLocal(t *testing.T, r *vreport.Report, db *Database, ctx context.Context, coll *DatabaseCollectionWithUser, n int, c c10LocalCase) {
	ours := db.EncodedSourceID
	docID := fmt.Sprintf("c10local-%d", n)
	now := uint64(time.Now().UnixNano())
	recorded := now - uint64(time.Hour)
	if c.Future {
		recorded = now + uint64(time.Hour)
	}
	tag := fmt.Sprintf("place=%s/future=%v", c.Place, c.Future)
	incoming := &HybridLogicalVector{SourceID: "peerP", Version: recorded + 1000}
	switch c.Place {
	case "pv":
		incoming.PreviousVersions = HLVVersions{ours: recorded, "peerQ": recorded - 5}
	case "mv":
		incoming.MergeVersions = HLVVersions{ours: recorded, "peerQ": recorded - 5}
	case "none":
		incoming.PreviousVersions = HLVVersions{"peerQ": recorded - 5}
	}
	newDoc := CreateTestDocument(docID, "", Body{"from": "peer"}, false, 0)
	doc, _, _, err := coll.PutExistingCurrentVersion(ctx, PutDocOptions{NewDoc: newDoc, NewDocHLV: incoming})
	if err != nil || doc == nil {
		r.Violate("C10/local/setup-pull-rejected/"+tag, fmt.Sprintf("pull of %s into an empty document failed: %v", incoming.HLVDebugString(), err), c)
		return
	}
	floor := uint64(0)
	if c.Place != "none" {
		floor = recorded
	}
	for i := 0; i < c.Edits; i++ {
		cur, err := coll.GetDocument(ctx, docID, DocUnmarshalAll)
		if err != nil {
			r.Violate("C10/local/read-failed/"+tag, err.Error(), c)
			return
		}
		before := cur.HLV.HLVDebugString()
		body := Body{"edit": i, BodyRev: cur.GetRevTreeID()}
		if c.Del && i == c.Edits-1 {
			body[BodyDeleted] = true
		}
		_, _, err = coll.Put(ctx, docID, body)
		if err != nil {
			r.Violate("C10/local/local-edit-rejected/"+tag, fmt.Sprintf("local edit %d on a document whose vector is %s failed: %v (our source %s, recorded value %d, clock about %d)", i+1, before, err, ours, floor, now), c)
			return
		}
		after, err := coll.GetDocument(ctx, docID, DocUnmarshalAll)
		if err != nil || after.HLV == nil {
			r.Violate("C10/local/read-failed/"+tag, fmt.Sprint(err), c)
			return
		}
		if after.HLV.SourceID != ours {
			r.Violate("C10/local/current-version-not-ours/"+tag, fmt.Sprintf("after a local edit cv is %s (our source %s); before %s", after.HLV.HLVDebugString(), ours, before), c)
		}
		if after.HLV.Version <= floor {
			r.Violate("C10/local/local-version-not-increasing/"+tag, fmt.Sprintf("local edit %d generated %d@%s which is not above %d already recorded for that source; before %s after %s", i+1, after.HLV.Version, ours, floor, before, after.HLV.HLVDebugString()), c)
		}
		for src, v := range after.HLV.PreviousVersions {
			if src == ours && v >= after.HLV.Version {
				r.Violate("C10/local/source-listed-with-higher-previous-value/"+tag, fmt.Sprintf("after %s", after.HLV.HLVDebugString()), c)
			}
		}
		if _, dup := after.HLV.MergeVersions[ours]; dup {
			r.Violate("C10/local/source-listed-twice/"+tag, fmt.Sprintf("our source is both cv and in mv after a local edit: %s", after.HLV.HLVDebugString()), c)
		}
		floor = after.HLV.Version
	}
	r.Distinct("local_outcomes", fmt.Sprintf("%+v", c))
}

func TestVerifC10Local(t *testing.T) {
	r := vreport.Begin("C10")
	defer r.Finish(t)
	r.Rule("(c) every (placement of this node's source in a pulled vector: absent / previous versions / merge versions) x (recorded value behind or one hour ahead of this node's clock) x (1..3 local edits, last one optionally a delete) on a real database through the real write path; each generated version must belong to this node's source and exceed every value recorded for it; non-trivial = distinct case")
	r.Assume("a lagging clock is represented by a recorded value one hour in the future")
	db, ctx := setupTestDB(t)
	defer db.Close(ctx)
	coll, ctx := GetSingleDatabaseCollectionWithUser(ctx, t, db)
	var rc c10LocalCase
	if r.Replaying(&rc) {
		c10RunLocal(t, r, db, ctx, coll, 0, rc)
		return
	}
	n := 0
	for _, place := range []string{"none", "pv", "mv"} { // a source in both pv and mv is not a valid vector
		for _, future := range []bool{false, true} {
			for edits := 1; edits <= 3; edits++ {
				for _, del := range []bool{false, true} {
					n++
					if !r.Mine(n) {
						continue
					}
					c := c10LocalCase{Place: place, Future: future, Edits: edits, Del: del}
					c10RunLocal(t, r, db, ctx, coll, n, c)
					r.Add("evaluations", 1)
					r.Add("distinct_nontrivial", 1)
					r.Sample(c)
				}
			}
		}
	}
}
