//go:build verif

package auth

import (
	"context"
	"fmt"
	"net/http"
	"net/http/httptest"
	"strings"
	"sync"
	"sync/atomic"
	"testing"
	"time"

	"github.com/couchbase/sync_gateway/base"
	"github.com/couchbase/sync_gateway/verifshim/vreport"
	"github.com/couchbase/sync_gateway/verifshim/vsched"
	"github.com/couchbase/sync_gateway/verifshim/vstate"
	"github.com/couchbase/sync_gateway/verifshim/vstore"
	"golang.org/x/crypto/bcrypt"
)

// C12 — only valid credentials and live sessions authenticate.
// (a) E2 over the real Authenticator on an in-memory bucket: create / delete / re-create user, disable /
//     enable, set password, create session (normal, one-time), delete (= expire) session, authenticate with
//     every password, with every cookie ever issued, with every one-time id. A reference model decides
//     whether each credential is current for a live, enabled user.
// (b) E1: 2-3 controlled threads present the same one-time session concurrently; at most one succeeds.

type c12Event struct {
	Op string `json:"op"` // create | delete | disable | enable | setpw | session | onetime | delsess | authpw | authcookie | authonetime
	P  string `json:"p,omitempty"`
	I  int    `json:"i,omitempty"`
}

type c12Sess struct {
	id          string
	incarnation int
	pwEpoch     int
	oneTime     bool
	gone        bool // deleted, expired or consumed
}

type c12Inst struct {
	a           *Authenticator
	ctx         context.Context
	exists      bool
	disabled    bool
	password    string
	incarnation int
	pwEpoch     int
	sessions    []*c12Sess
	maxSessions int
	// verified: the current password hash has been verified successfully (the process-wide cache of verified
	// passwords holds an entry for it) - hidden state of the code under test that decides later answers
	verified bool
}

var (
	c12Once   sync.Once
	c12TB     *base.TestBucket
	c12Ctx    context.Context
	c12Serial atomic.Int64
)

func c12Shared(t testing.TB) {
	c12Once.Do(func() {
		c12Ctx = base.TestCtx(t)
		c12TB = base.GetTestBucket(t)
	})
}

func c12New(t testing.TB, maxSessions int) *c12Inst {
	c12Shared(t)
	opts := DefaultAuthenticatorOptions(c12Ctx)
	opts.BcryptCost = bcrypt.MinCost
	opts.MetaKeys = base.NewMetadataKeys(fmt.Sprintf("c12n%d", c12Serial.Add(1)))
	a := NewAuthenticator(c12TB.GetSingleDataStore(), nil, opts)
	return &c12Inst{a: a, ctx: c12Ctx, maxSessions: maxSessions}
}

func (in *c12Inst) Close() {}

const c12User = "alice"

// the two distinct non-empty passwords: a pair that collides under a 32-bit FNV-1a digest (any digest shorter than the
// one the verified-password cache is keyed by would make them indistinguishable to the cache); "e" is the empty password
var c12PW = map[string]string{"p": "costarring", "q": "liquid", "e": "", "": ""}

func (in *c12Inst) Enabled() []c12Event {
	var ev []c12Event
	if !in.exists {
		ev = append(ev, c12Event{Op: "create", P: "p"}, c12Event{Op: "create", P: "q"}, c12Event{Op: "create", P: "e"})
	} else {
		ev = append(ev, c12Event{Op: "delete"})
		if in.disabled {
			ev = append(ev, c12Event{Op: "enable"})
		} else {
			ev = append(ev, c12Event{Op: "disable"})
			if len(in.sessions) < in.maxSessions {
				ev = append(ev, c12Event{Op: "session"}, c12Event{Op: "onetime"})
			}
		}
		for _, p := range []string{"p", "q", "e"} {
			ev = append(ev, c12Event{Op: "setpw", P: p})
		}
	}
	for i, s := range in.sessions {
		if !s.gone {
			ev = append(ev, c12Event{Op: "delsess", I: i})
		}
		ev = append(ev, c12Event{Op: "authcookie", I: i})
		if s.oneTime {
			ev = append(ev, c12Event{Op: "authonetime", I: i})
		}
	}
	for _, p := range []string{"p", "q", ""} {
		ev = append(ev, c12Event{Op: "authpw", P: p})
	}
	return ev
}

func (in *c12Inst) save(mut func(u User) error) error {
	u, err := in.a.GetUser(c12User)
	if err != nil || u == nil {
		return fmt.Errorf("get user: %v", err)
	}
	if err := mut(u); err != nil {
		return err
	}
	return in.a.Save(u)
}

func (in *c12Inst) sessionLive(s *c12Sess) bool {
	return !s.gone && in.exists && !in.disabled && s.incarnation == in.incarnation && s.pwEpoch == in.pwEpoch
}

func (in *c12Inst) Apply(e c12Event) map[string]string {
	viol := map[string]string{}
	harness := func(err error) {
		if err != nil {
			viol["C12/harness/"+e.Op] = err.Error()
		}
	}
	switch e.Op {
	case "create":
		u, err := in.a.NewUser(c12User, c12PW[e.P], base.SetOf("A"))
		if err == nil {
			err = in.a.Save(u)
		}
		harness(err)
		in.exists, in.disabled, in.password = true, false, e.P
		in.incarnation++
		in.pwEpoch++
		in.verified = false
	case "delete":
		u, err := in.a.GetUser(c12User)
		if err == nil && u != nil {
			err = in.a.DeleteUser(u)
		}
		harness(err)
		in.exists = false
	case "disable", "enable":
		harness(in.save(func(u User) error { u.SetDisabled(e.Op == "disable"); return nil }))
		in.disabled = e.Op == "disable"
	case "setpw":
		harness(in.save(func(u User) error { return u.SetPassword(c12PW[e.P]) }))
		in.password = e.P
		in.pwEpoch++
		in.verified = false
	case "session", "onetime":
		u, err := in.a.GetUser(c12User)
		if err != nil || u == nil {
			harness(fmt.Errorf("get user: %v", err))
			break
		}
		s, err := in.a.CreateSession(in.ctx, u, time.Hour, e.Op == "onetime")
		if err != nil {
			harness(err)
			break
		}
		in.sessions = append(in.sessions, &c12Sess{id: s.ID, incarnation: in.incarnation, pwEpoch: in.pwEpoch, oneTime: e.Op == "onetime"})
	case "delsess":
		// explicit logout and bucket-side expiry are the same observable event: the session document disappears
		harness(in.a.DeleteSession(in.ctx, in.sessions[e.I].id, c12User))
		in.sessions[e.I].gone = true
	case "authpw":
		u, err := in.a.AuthenticateUser(c12User, c12PW[e.P])
		got := err == nil && u != nil
		if got && c12PW[e.P] != "" {
			in.verified = true
		}
		want := in.exists && !in.disabled && c12PW[e.P] != "" && e.P == in.password
		state := fmt.Sprintf("exists=%v disabled=%v", in.exists, in.disabled)
		if in.exists && !in.disabled && in.password == "e" && c12PW[e.P] == "" {
			// a user without a password: the empty password is at once "that user's current password" and "an empty
			// password"; the statement's two clauses disagree here, so this presentation is not judged
			want = got
		}
		if got && !want {
			kind := "wrong-password"
			switch {
			case !in.exists:
				kind = "deleted-user"
			case in.disabled:
				kind = "disabled-user"
			case c12PW[e.P] == "":
				kind = "empty-password"
			}
			viol["C12/password/accepted-"+kind] = fmt.Sprintf("AuthenticateUser(%q, %q) succeeded; current password %q, %s", c12User, e.P, in.password, state)
		}
		if !got && want {
			viol["C12/password/current-password-rejected"] = fmt.Sprintf("AuthenticateUser(%q, %q) failed (err=%v); it is the current password, %s", c12User, e.P, err, state)
		}
		// the remembered-password fast path must agree with the full check on the stored hash
		if in.exists {
			if u2, _ := in.a.GetUser(c12User); u2 != nil {
				ui := u2.(*userImpl)
				if ui.PasswordHash_ != nil {
					full := bcrypt.CompareHashAndPassword(ui.PasswordHash_, []byte(c12PW[e.P])) == nil
					fast := compareHashAndPassword(cachedHashes, ui.PasswordHash_, []byte(c12PW[e.P]))
					if fast && !full {
						viol["C12/password/fast-path-accepts-what-full-check-rejects"] = fmt.Sprintf("password %q: cached check true, bcrypt false", e.P)
					}
				}
			}
		}
	case "authcookie", "authonetime":
		s := in.sessions[e.I]
		var got bool
		var err error
		if e.Op == "authcookie" {
			rq, _ := http.NewRequest("GET", "http://localhost/db/", nil)
			rq.AddCookie(&http.Cookie{Name: in.a.SessionCookieName, Value: s.id})
			var u User
			u, err = in.a.AuthenticateCookie(rq, httptest.NewRecorder())
			got = err == nil && u != nil
		} else {
			var u User
			u, err = in.a.AuthenticateOneTimeSession(in.ctx, s.id)
			got = err == nil && u != nil
		}
		want := in.sessionLive(s)
		if got && !want {
			kind := "stale-session"
			switch {
			case s.gone:
				kind = "deleted-expired-or-consumed-session"
			case !in.exists:
				kind = "session-of-deleted-user"
			case s.incarnation != in.incarnation:
				kind = "session-of-previous-user-incarnation"
			case s.pwEpoch != in.pwEpoch:
				kind = "session-issued-before-password-change"
			case in.disabled:
				kind = "session-of-disabled-user"
			}
			viol["C12/session/"+e.Op+"/accepted-"+kind] = fmt.Sprintf("%s with session %d (one-time=%v) authenticated; model: gone=%v exists=%v disabled=%v incarnation %d/%d password epoch %d/%d",
				e.Op, e.I, s.oneTime, s.gone, in.exists, in.disabled, s.incarnation, in.incarnation, s.pwEpoch, in.pwEpoch)
		}
		if !got && want {
			viol["C12/session/"+e.Op+"/live-session-rejected"] = fmt.Sprintf("%s with live session %d failed: %v", e.Op, e.I, err)
		}
		if got && s.oneTime {
			s.gone = true // consumed
		}
	}
	if len(viol) == 0 {
		return nil
	}
	return viol
}

func (in *c12Inst) Canon() string {
	var b strings.Builder
	fmt.Fprintf(&b, "e%v d%v p%s v%v|", in.exists, in.disabled, in.password, in.verified)
	for _, s := range in.sessions {
		fmt.Fprintf(&b, "[%v %v %v %v]", s.incarnation == in.incarnation, s.pwEpoch == in.pwEpoch, s.oneTime, s.gone)
	}
	return b.String()
}

type c12Replay struct {
	Kind    string               `json:"kind"`
	MaxSess int                  `json:"max_sess,omitempty"`
	Hist    []c12Event           `json:"hist,omitempty"`
	Threads int                  `json:"threads,omitempty"`
	Mix     string               `json:"mix,omitempty"`
	Prefix  []vsched.PrefixEntry `json:"prefix,omitempty"`
	Bound   int                  `json:"bound,omitempty"`
}

// ---- (b) concurrent presentation of one one-time session

func c12OneTimeScenario(t testing.TB, r *vreport.Report, threads int, mix string) vsched.Scenario {
	c12Shared(t)
	vb := vstore.Wrap(c12TB.Bucket)
	opts := DefaultAuthenticatorOptions(c12Ctx)
	opts.BcryptCost = bcrypt.MinCost
	opts.MetaKeys = base.NewMetadataKeys(fmt.Sprintf("c12o%d", c12Serial.Add(1)))
	var ds base.DataStore
	for _, name := range []string{"x"} {
		_ = name
		ds = vb.DefaultDataStore(c12Ctx)
	}
	a := NewAuthenticator(ds, nil, opts)
	u, err := a.NewUser(c12User, "p", base.SetOf("A"))
	if err == nil {
		err = a.Save(u)
	}
	if err != nil {
		t.Fatalf("setup: %v", err)
	}
	s, err := a.CreateSession(c12Ctx, u, time.Hour, true)
	if err != nil {
		t.Fatalf("setup session: %v", err)
	}
	ok := make([]bool, threads)
	fns := make([]func(), threads)
	for i := 0; i < threads; i++ {
		i := i
		fns[i] = func() {
			useCookie := mix == "cookie" || (mix == "mixed" && i%2 == 1)
			if useCookie {
				rq, _ := http.NewRequest("GET", "http://localhost/db/", nil)
				rq.AddCookie(&http.Cookie{Name: a.SessionCookieName, Value: s.ID})
				usr, err := a.AuthenticateCookie(rq, httptest.NewRecorder())
				ok[i] = err == nil && usr != nil
			} else {
				usr, err := a.AuthenticateOneTimeSession(c12Ctx, s.ID)
				ok[i] = err == nil && usr != nil
			}
		}
	}
	vb.H.Schedule = true
	vb.H.Enabled = true
	return vsched.Scenario{Threads: fns, Check: func(x *vsched.Exec) map[string]string {
		vb.H.Enabled = false
		n := 0
		for _, o := range ok {
			if o {
				n++
			}
		}
		r.Distinct("onetime_outcomes", fmt.Sprintf("%d/%s/%v", threads, mix, ok))
		if n > 1 {
			return map[string]string{"C12/onetime/authenticated-more-than-once/" + mix: fmt.Sprintf("%d of %d concurrent presentations of one one-time session authenticated (%v)", n, threads, ok)}
		}
		if n == 0 {
			return map[string]string{"C12/onetime/no-presentation-authenticated/" + mix: "none of the concurrent presentations of a live one-time session authenticated"}
		}
		return nil
	}}
}

// ---- (c) one storage fault during the presentation of a one-time session, then a second presentation

type c12FaultCase struct {
	First  string `json:"first"`  // cookie | onetime
	Second string `json:"second"` // cookie | onetime
	At     int    `json:"at"`
	Mode   int    `json:"mode"`
}

func c12RunFault(t testing.TB, r *vreport.Report, c c12FaultCase, opsOut *int) {
	c12Shared(t)
	vb := vstore.Wrap(c12TB.Bucket)
	opts := DefaultAuthenticatorOptions(c12Ctx)
	opts.BcryptCost = bcrypt.MinCost
	opts.MetaKeys = base.NewMetadataKeys(fmt.Sprintf("c12f%d", c12Serial.Add(1)))
	a := NewAuthenticator(vb.DefaultDataStore(c12Ctx), nil, opts)
	u, err := a.NewUser(c12User, "pw", base.SetOf("A"))
	if err == nil {
		err = a.Save(u)
	}
	if err != nil {
		t.Fatalf("setup: %v", err)
	}
	sess, err := a.CreateSession(c12Ctx, u, time.Hour, true)
	if err != nil {
		t.Fatalf("setup session: %v", err)
	}
	present := func(kind string) bool {
		if kind == "cookie" {
			rq, _ := http.NewRequest("GET", "http://localhost/db/", nil)
			rq.AddCookie(&http.Cookie{Name: a.SessionCookieName, Value: sess.ID})
			usr, err := a.AuthenticateCookie(rq, httptest.NewRecorder())
			return err == nil && usr != nil
		}
		usr, err := a.AuthenticateOneTimeSession(c12Ctx, sess.ID)
		return err == nil && usr != nil
	}
	vb.H.Plan = func(seq int, op, key string, write bool) vstore.Injection {
		if seq == c.At {
			return vstore.Injection(c.Mode)
		}
		return vstore.None
	}
	vb.H.Enabled = true
	first := present(c.First)
	log := vb.H.Snapshot()
	vb.H.Enabled = false
	if opsOut != nil {
		*opsOut = len(log)
		return
	}
	var ops []string
	for _, o := range log {
		ops = append(ops, fmt.Sprintf("%s(%s)%s", o.Op, o.Key, map[bool]string{true: "!" + o.Inject, false: ""}[o.Inject != ""]))
	}
	second := present(c.Second)
	third := present(c.Second)
	r.Distinct("onetime_fault_outcomes", fmt.Sprintf("%s/%s/%d/%d=%v,%v", c.First, c.Second, c.At, c.Mode, first, second))
	n := 0
	for _, b := range []bool{first, second, third} {
		if b {
			n++
		}
	}
	if n > 1 {
		r.Violate(fmt.Sprintf("C12/onetime-fault/authenticated-more-than-once/first=%s/mode=%s", c.First, vstore.Injection(c.Mode)),
			fmt.Sprintf("one one-time session authenticated %d times: first presentation (%s, storage fault %s at operation %d of [%s]) = %v, later presentations (%s) = %v, %v", n, c.First, vstore.Injection(c.Mode), c.At, strings.Join(ops, " "), first, c.Second, second, third), map[string]any{"kind": "onetime-fault", "case": c})
	}
}

func TestVerifC12(t *testing.T) {
	r := vreport.Begin("C12")
	defer r.Finish(t)
	r.Rule("(a) BFS over every history of create(p|q) / delete / disable / enable / set password / create session / create one-time session / delete-or-expire session / authenticate with password p, q, empty / with each cookie / with each one-time id, on the real Authenticator, up to depth D and at most S sessions; canonical state = (user exists, disabled, password, whether the current password has been verified (cached), per session: same incarnation, same password epoch, one-time, gone); (b) every schedule (preemption bound B, points at storage operations) of 2-3 concurrent presentations of one one-time session via the cookie path, the one-time path and a mix; (c) one storage fault (error, CAS mismatch, timeout not applied, timeout applied) at each storage operation of a presentation of a one-time session, followed by two fault-free presentations: at most one of the three may authenticate")
	r.Assume("session expiry is the bucket deleting the session document (same observable event as logout); arbitrary password strings are represented by two distinct passwords (chosen to collide under a 32-bit FNV-1a digest) and the empty password, which can also be set; bcrypt cost is the minimum")
	defer func() {
		if c12TB != nil {
			c12TB.Close(c12Ctx)
		}
	}()
	mkA := func(maxSess, depth int) vstate.Config[c12Event] {
		return vstate.Config[c12Event]{
			Name:       fmt.Sprintf("sessions<=%d", maxSess),
			New:        func() vstate.Instance[c12Event] { return c12New(t, maxSess) },
			MaxDepth:   depth,
			ShardDepth: 2,
			Replay:     func(name string, h []c12Event) any { return c12Replay{Kind: "history", MaxSess: maxSess, Hist: h} },
		}
	}
	mkB := func(threads int, mix string, bound int) vsched.Config {
		return vsched.Config{
			Name:   fmt.Sprintf("onetime/%d/%s", threads, mix),
			Bound:  bound,
			New:    func() vsched.Scenario { return c12OneTimeScenario(t, r, threads, mix) },
			Filter: func(k vsched.Kind) bool { return k == vsched.KStore },
			Replay: func(name string, p []vsched.PrefixEntry) any {
				return c12Replay{Kind: "onetime", Threads: threads, Mix: mix, Prefix: p, Bound: bound}
			},
		}
	}
	var rc c12Replay
	if r.ReplayKind() == "onetime-fault" {
		var fc struct {
			Kind string       `json:"kind"`
			Case c12FaultCase `json:"case"`
		}
		r.Replaying(&fc)
		c12RunFault(t, r, fc.Case, nil)
		return
	}
	if r.Replaying(&rc) {
		if rc.Kind == "history" {
			vstate.ReplayHistory(r, mkA(rc.MaxSess, len(rc.Hist)), rc.Hist)
		} else {
			vsched.ReplayOne(r, mkB(rc.Threads, rc.Mix, rc.Bound), rc.Prefix)
		}
		return
	}
	depth, sess, bound := 5, 2, 2
	if r.Thorough() {
		depth, sess, bound = 7, 2, 3
	}
	r.Note("depth", depth)
	r.Note("max_sessions", sess)
	r.Note("onetime_preemption_bound", bound)
	for _, mix := range []string{"onetime", "cookie", "mixed"} {
		for _, n := range []int{2, 3} {
			if vsched.FreePass(r.Add, func() vsched.Scenario { return c12OneTimeScenario(t, r, n, mix) }) {
				continue // race-detector pass: the same thread bodies, free-running, in a binary built with -race
			}
			vsched.Explore(r, mkB(n, mix, bound))
		}
	}
	if vsched.FreeRuns() > 0 {
		return // the race-detector pass covers the concurrent part (b) only
	}
	// (c)
	fidx := 0
	for _, first := range []string{"cookie", "onetime"} {
		nOps := 0
		c12RunFault(t, r, c12FaultCase{First: first, At: -1}, &nOps)
		r.Max("onetime_presentation_storage_operations", int64(nOps))
		for _, second := range []string{"cookie", "onetime"} {
			for at := 0; at < nOps; at++ {
				for _, mode := range []vstore.Injection{vstore.ErrBefore, vstore.CasMismatch, vstore.TimeoutBefore, vstore.TimeoutAfter} {
					fidx++
					if !r.Mine(fidx) {
						continue
					}
					c12RunFault(t, r, c12FaultCase{First: first, Second: second, At: at, Mode: int(mode)}, nil)
					r.Add("onetime_fault_cases", 1)
					r.Add("evaluations", 1)
				}
			}
		}
	}
	vstate.Explore(r, mkA(sess, depth))
	r.Add("distinct_nontrivial", r.Get("states"))
}
