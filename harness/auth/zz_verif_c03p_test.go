//go:build verif

package auth

import (
	"fmt"
	"sort"
	"strings"
	"testing"

	"github.com/couchbase/sync_gateway/base"
	ch "github.com/couchbase/sync_gateway/channels"
	"github.com/couchbase/sync_gateway/verifshim/vreport"
	"github.com/couchbase/sync_gateway/verifshim/vsched"
	"github.com/couchbase/sync_gateway/verifshim/vstore"
	"golang.org/x/crypto/bcrypt"
)

// C03 (part b) — a principal load that has to recompute invalidated access (a CAS update of the principal document)
// racing with administrator edits of the same principal and with other loads: E1 over the real Authenticator on a
// stepping datastore, points at every storage operation (incl. the read and the write of each CAS-update attempt).
// Afterwards the stored principal must carry exactly the administrator's last acknowledged assignment, and the
// effective channels / roles a fresh load returns must equal admin assignment + what the channel computer grants.

type c03pScenario struct {
	Threads []string `json:"threads"` // load | admin-clear-roles | admin-clear-channels | admin-clear-both | admin-set | invalidate
}

type c03pReplay struct {
	Sc     c03pScenario         `json:"sc"`
	Prefix []vsched.PrefixEntry `json:"prefix"`
	Bound  int                  `json:"bound"`
}

func c03pKeys(s ch.TimedSet) string {
	var l []string
	for k := range s {
		l = append(l, k)
	}
	sort.Strings(l)
	return strings.Join(l, ",")
}

func c03pBuild(t testing.TB, r *vreport.Report, sc c03pScenario) vsched.Scenario {
	c12Shared(t)
	vb := vstore.Wrap(c12TB.Bucket)
	opts := DefaultAuthenticatorOptions(c12Ctx)
	opts.BcryptCost = bcrypt.MinCost
	opts.MetaKeys = base.NewMetadataKeys(fmt.Sprintf("c03p%d", c12Serial.Add(1)))
	ds := vb.DefaultDataStore(c12Ctx)
	const name = "alice"
	computer := mockComputerV2{
		channels:     map[string]ch.TimedSet{name: ch.AtSequence(base.SetOf("D1"), 3)},
		roles:        map[string]ch.TimedSet{name: ch.AtSequence(base.SetOf("rdoc"), 3)},
		roleChannels: map[string]ch.TimedSet{},
	}
	a := NewAuthenticator(ds, computer, opts)
	for _, rn := range []string{"r1", "rdoc", "r2"} {
		role, err := a.NewRole(rn, base.SetOf("R"+rn))
		if err == nil {
			err = a.Save(role)
		}
		if err != nil {
			t.Fatalf("setup role: %v", err)
		}
	}
	u, err := a.NewUser(name, "p", base.SetOf("A"))
	if err == nil {
		u.SetExplicitRoles(ch.AtSequence(base.SetOf("r1"), 1), 1)
		err = a.Save(u)
	}
	if err != nil {
		t.Fatalf("setup user: %v", err)
	}
	if _, err := a.GetUser(name); err != nil { // computed once
		t.Fatalf("setup load: %v", err)
	}
	// a granting document changed: channels and roles of the user are invalidated, the next load recomputes and saves
	if err := a.InvalidateDefaultChannels(name, true, 5); err != nil {
		t.Fatalf("setup invalidate: %v", err)
	}
	if err := a.InvalidateRoles(name, 5); err != nil {
		t.Fatalf("setup invalidate roles: %v", err)
	}
	type adminState struct {
		chans, roles string
	}
	// model: the administrator's assignment; each admin thread records what it wrote when its save was acknowledged
	acked := make([]*adminState, len(sc.Threads))
	loadErr := make([]error, len(sc.Threads))
	fns := make([]func(), len(sc.Threads))
	for i, kind := range sc.Threads {
		i, kind := i, kind
		fns[i] = func() {
			switch kind {
			case "load":
				_, loadErr[i] = a.GetUser(name)
			case "invalidate":
				loadErr[i] = a.InvalidateDefaultChannels(name, true, uint64(10+i))
			default:
				// the administrator's edit as db.UpdatePrincipal performs it: load, change, save with the loaded CAS, and
				// start over when the save loses a CAS race
				for attempt := 0; attempt < PrincipalUpdateMaxCasRetries; attempt++ {
					usr, err := a.GetUser(name)
					if err != nil || usr == nil {
						loadErr[i] = fmt.Errorf("admin load: %v", err)
						return
					}
					want := adminState{chans: "A", roles: "r1"}
					seq := uint64(20 + i)
					switch kind {
					case "admin-clear-roles":
						usr.SetExplicitRoles(ch.TimedSet{}, seq)
						want.roles = ""
					case "admin-clear-channels":
						usr.SetExplicitChannels(ch.TimedSet{}, seq)
						want.chans = ""
					case "admin-clear-both":
						usr.SetExplicitRoles(ch.TimedSet{}, seq)
						usr.SetExplicitChannels(ch.TimedSet{}, seq)
						want.roles, want.chans = "", ""
					case "admin-set":
						usr.SetExplicitRoles(ch.AtSequence(base.SetOf("r2"), seq), seq)
						usr.SetExplicitChannels(ch.AtSequence(base.SetOf("B"), seq), seq)
						want.roles, want.chans = "r2", "B"
					}
					// only the field(s) this administrator edits are asserted; the other keeps whatever was loaded
					if kind == "admin-clear-roles" {
						want.chans = c03pKeys(usr.ExplicitChannels())
					}
					if kind == "admin-clear-channels" {
						want.roles = c03pKeys(usr.ExplicitRoles())
					}
					err = a.Save(usr)
					if err == nil {
						w := want
						acked[i] = &w
						return
					}
					if !base.IsCasMismatch(err) {
						loadErr[i] = err
						return
					}
				}
				loadErr[i] = fmt.Errorf("admin edit gave up after CAS retries")
			}
		}
	}
	vb.H.Schedule = true
	vb.H.Enabled = true
	return vsched.Scenario{Threads: fns, Check: func(x *vsched.Exec) map[string]string {
		vb.H.Enabled = false
		viol := map[string]string{}
		desc := strings.Join(sc.Threads, " || ")
		for i, e := range loadErr {
			if e != nil {
				viol["C03/principal-race/operation-failed/"+sc.Threads[i]] = fmt.Sprintf("%s failed: %v [%s]", sc.Threads[i], e, desc)
			}
		}
		usr, err := a.GetUser(name)
		if err != nil || usr == nil {
			viol["C03/principal-race/final-load-failed"] = fmt.Sprintf("%v [%s]", err, desc)
			return viol
		}
		gotCh, gotRoles := c03pKeys(usr.ExplicitChannels()), c03pKeys(usr.ExplicitRoles())
		// acceptable final admin assignment: the initial one if no admin edit was acknowledged, else that of an
		// acknowledged edit (with several concurrent edits any serial order of them is acceptable)
		type cand struct{ chans, roles string }
		var cands []cand
		nAdmin := 0
		var admins []*adminState
		for _, st := range acked {
			if st != nil {
				nAdmin++
				admins = append(admins, st)
			}
		}
		if nAdmin == 0 {
			cands = append(cands, cand{"A", "r1"})
		}
		for _, st := range admins {
			cands = append(cands, cand{st.chans, st.roles})
		}
		ok := false
		for _, c := range cands {
			if c.chans == gotCh && c.roles == gotRoles {
				ok = true
			}
		}
		r.Distinct("principal_race_outcomes", fmt.Sprintf("%s|%s|%s", desc, gotCh, gotRoles))
		if !ok {
			viol["C03/principal-race/admin-assignment-not-the-acknowledged-one"] = fmt.Sprintf("stored user has admin channels {%s} and admin roles {%s}; acknowledged administrator edits allow %v [%s]", gotCh, gotRoles, cands, desc)
		}
		// effective access of a fresh load = admin assignment + document grants
		wantCh := map[string]bool{"!": true, "D1": true}
		for _, c := range strings.Split(gotCh, ",") {
			if c != "" {
				wantCh[c] = true
			}
		}
		wantRoles := map[string]bool{"rdoc": true}
		for _, c := range strings.Split(gotRoles, ",") {
			if c != "" {
				wantRoles[c] = true
			}
		}
		var wc, wr []string
		for c := range wantCh {
			wc = append(wc, c)
		}
		for c := range wantRoles {
			wr = append(wr, c)
		}
		sort.Strings(wc)
		sort.Strings(wr)
		if got := c03pKeys(usr.Channels()); got != strings.Join(wc, ",") {
			viol["C03/principal-race/effective-channels-wrong"] = fmt.Sprintf("a fresh load has channels {%s}, expected {%s} [%s]", got, strings.Join(wc, ","), desc)
		}
		if got := c03pKeys(usr.RoleNames()); got != strings.Join(wr, ",") {
			viol["C03/principal-race/effective-roles-wrong"] = fmt.Sprintf("a fresh load has roles {%s}, expected {%s} [%s]", got, strings.Join(wr, ","), desc)
		}
		if len(viol) == 0 {
			return nil
		}
		return viol
	}}
}

func TestVerifC03Principal(t *testing.T) {
	r := vreport.Begin("C03")
	defer r.Finish(t)
	r.Rule("E1: a user whose channels and roles were invalidated by a granting document; threads = subsets of {load (recompute + CAS save), second load, administrator clears roles / clears channels / clears both / sets others (load, edit, CAS save, restart on CAS mismatch), a further invalidation}; every schedule with at most B preemptions over all storage operations incl. the read and write of each CAS-update attempt; non-trivial = distinct (scenario, schedule)")
	r.Assume("the channel computer is a fixed map (document grants do not change during the race); bcrypt cost is the minimum")
	defer func() {
		if c12TB != nil {
			c12TB.Close(c12Ctx)
			c12TB = nil
		}
	}()
	mk := func(sc c03pScenario, bound int) vsched.Config {
		return vsched.Config{
			Name:   strings.Join(sc.Threads, " || "),
			Bound:  bound,
			New:    func() vsched.Scenario { return c03pBuild(t, r, sc) },
			Filter: func(k vsched.Kind) bool { return k == vsched.KStore },
			Replay: func(name string, p []vsched.PrefixEntry) any { return c03pReplay{Sc: sc, Prefix: p, Bound: bound} },
		}
	}
	var rc c03pReplay
	if r.Replaying(&rc) {
		vsched.ReplayOne(r, mk(rc.Sc, rc.Bound), rc.Prefix)
		return
	}
	bound := 2
	if r.Thorough() {
		bound = 3
	}
	r.Note("preemption_bound", bound)
	admins := []string{"admin-clear-roles", "admin-clear-channels", "admin-clear-both", "admin-set"}
	var scs []c03pScenario
	for _, ad := range admins {
		scs = append(scs, c03pScenario{Threads: []string{"load", ad}})
		scs = append(scs, c03pScenario{Threads: []string{"load", ad, "load"}})
		scs = append(scs, c03pScenario{Threads: []string{"load", ad, "invalidate"}})
	}
	scs = append(scs, c03pScenario{Threads: []string{"load", "load"}}, c03pScenario{Threads: []string{"load", "invalidate"}},
		c03pScenario{Threads: []string{"admin-clear-both", "admin-set", "load"}})
	for i, sc := range scs {
		if !r.Mine(i) || r.Expired() {
			continue
		}
		if vsched.FreePass(r.Add, func() vsched.Scenario { return c03pBuild(t, r, sc) }) {
			continue // race-detector pass: the same thread bodies, free-running, in a binary built with -race
		}
		vsched.Explore(r, mk(sc, bound))
		r.Add("scenarios", 1)
	}
	if vsched.FreeRuns() == 0 {
		r.Add("distinct_nontrivial", r.Get("schedules"))
	}
}
