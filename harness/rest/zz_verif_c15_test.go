//go:build verif

package rest

import (
	"context"
	"fmt"
	"os"
	"sort"
	"strings"
	"sync"
	"testing"
	"time"

	"github.com/couchbase/sync_gateway/base"
	"github.com/couchbase/sync_gateway/verifshim/vconn"
	"github.com/couchbase/sync_gateway/verifshim/vreport"
	"github.com/couchbase/sync_gateway/verifshim/vsched"
)

// C15 — database configurations stay consistent across nodes and interrupted changes.
// Nodes are real bootstrapContexts sharing one in-memory cluster through the vconn seam.
//  (a) crash enumeration: for every change sequence, the node performing the last change dies before / after
//      each of its metadata operations; then each recovery action runs on a healthy node.
//  (b) races: two nodes each perform one change, every interleaving of their metadata operations up to a
//      preemption bound.

type c15Change struct {
	Op   string `json:"op"`   // ins | upd | del
	DB   string `json:"db"`   // db1 | db2 | db3
	Cols string `json:"cols"` // collection set for ins: "1", "2", "12", "3"
}

func (c c15Change) String() string { return c.Op + "-" + c.DB + "-" + c.Cols }

type c15Case struct {
	Kind       string               `json:"kind"`
	Prefix     []c15Change          `json:"prefix,omitempty"`
	Last       c15Change            `json:"last"`
	CrashAt    int                  `json:"crash_at"`
	CrashAfter bool                 `json:"crash_after,omitempty"`
	Recovery   string               `json:"recovery,omitempty"`
	Other      *c15Change           `json:"other,omitempty"` // race: second node's change
	// race: second node runs this program instead of Other (ops ins | upd | del | load) and dies at operation
	// OtherCrashAt (after applying it) of its connection when OtherCrash is set
	OtherProg    []c15Change `json:"other_prog,omitempty"`
	OtherCrash   bool        `json:"other_crash,omitempty"`
	OtherCrashAt int         `json:"other_crash_at,omitempty"`
	Sched      []vsched.PrefixEntry `json:"sched,omitempty"`
	Bound      int                  `json:"bound,omitempty"`
}

type c15Cfg struct {
	version string
	revs    uint32
	cols    string
}

type c15Env struct {
	t      *testing.T
	sc     *ServerContext
	closeF func()
	conn   base.BootstrapConnection
	group  string
}

var (
	c15Once sync.Once
	c15E    *c15Env
)

func c15GetEnv(t *testing.T) *c15Env {
	c15Once.Do(func() {
		sc, closeFn := startBootstrapServerWithoutConfigPolling(t, false)
		c15E = &c15Env{t: t, sc: sc, closeF: closeFn, conn: sc.BootstrapContext.Connection, group: sc.Config.Bootstrap.ConfigGroupID}
	})
	return c15E
}

type c15World struct {
	e       *c15Env
	ctx     context.Context
	tb      *base.TestBucket
	bucket  string
	stores  []base.ScopeAndCollectionName
	model   map[string]*c15Cfg // acknowledged / possible state per database
	counter int
}

func (e *c15Env) newWorld(t *testing.T) *c15World {
	ctx := base.TestCtx(t)
	tb := base.GetTestBucket(t)
	w := &c15World{e: e, ctx: ctx, tb: tb, bucket: tb.GetName(), model: map[string]*c15Cfg{}}
	for _, s := range tb.GetNonDefaultDatastoreNames() {
		w.stores = append(w.stores, base.ScopeAndCollectionName{Scope: s.ScopeName(), Collection: s.CollectionName()})
	}
	return w
}

func (w *c15World) close() { w.tb.Close(w.ctx) }

func (w *c15World) node(conn base.BootstrapConnection) *bootstrapContext {
	src := w.e.sc.BootstrapContext
	return &bootstrapContext{Connection: conn, configRetryTimeout: time.Nanosecond, sgVersion: src.sgVersion, clusterCompatVersion: src.clusterCompatVersion}
}

func (w *c15World) scopes(cols string) ScopesConfig {
	sc := ScopesConfig{}
	for _, ch := range cols {
		s := w.stores[int(ch-'1')]
		if _, ok := sc[s.Scope]; !ok {
			sc[s.Scope] = ScopeConfig{Collections: map[string]*CollectionConfig{}}
		}
		sc[s.Scope].Collections[s.Collection] = &CollectionConfig{}
	}
	return sc
}

// perform runs one change on a node and returns the configuration it tried to establish (nil for delete).
func (w *c15World) perform(n *bootstrapContext, c c15Change) (*c15Cfg, error) {
	w.counter++
	switch c.Op {
	case "ins":
		cfg := getTestDatabaseConfig(w.bucket, c.DB, w.scopes(c.Cols), "1-a")
		revs := uint32(100 + w.counter)
		cfg.RevsLimit = base.Ptr(revs)
		_, err := n.InsertConfig(w.ctx, w.bucket, w.e.group, cfg)
		return &c15Cfg{version: "1-a", revs: revs, cols: c.Cols}, err
	case "upd":
		revs := uint32(100 + w.counter)
		var out *c15Cfg
		_, err := n.UpdateConfig(w.ctx, w.bucket, w.e.group, c.DB, func(cur *DatabaseConfig) (*DatabaseConfig, error) {
			gen := 0
			_, _ = fmt.Sscanf(cur.Version, "%d-", &gen)
			cur.Version = fmt.Sprintf("%d-u", gen+1)
			cur.RevsLimit = base.Ptr(revs)
			cols := c.Cols
			if cols != "" {
				cur.Scopes = w.scopes(cols)
			}
			out = &c15Cfg{version: cur.Version, revs: revs, cols: cols}
			return cur, nil
		})
		return out, err
	case "del":
		return nil, n.DeleteConfig(w.ctx, w.bucket, w.e.group, c.DB)
	}
	return nil, fmt.Errorf("unknown op")
}

func c15Cols(cfg *DatabaseConfig, w *c15World) string {
	var l []string
	for scope, sc := range cfg.Scopes {
		for col := range sc.Collections {
			for i, s := range w.stores {
				if s.Scope == scope && s.Collection == col {
					l = append(l, fmt.Sprint(i+1))
				}
			}
		}
	}
	sort.Strings(l)
	return strings.Join(l, "")
}

// observe loads configurations on a healthy node and checks them against the allowed states.
// allowed[db] lists the acceptable complete configurations (nil entry = absent allowed).
func (w *c15World) observe(r *vreport.Report, tag string, allowed map[string][]*c15Cfg, rep c15Case, desc string) (present map[string]*c15Cfg, ok bool) {
	n := w.node(w.e.conn)
	configs, err := n.GetDatabaseConfigs(w.ctx, w.bucket, w.e.group)
	if err != nil {
		r.Violate("C15/load-failed/"+tag, fmt.Sprintf("GetDatabaseConfigs on a healthy node failed: %v; %s", err, desc), rep)
		return nil, false
	}
	registry, err := n.getGatewayRegistry(w.ctx, w.bucket)
	if err != nil {
		r.Violate("C15/registry-unreadable/"+tag, fmt.Sprintf("%v; %s", err, desc), rep)
		return nil, false
	}
	present = map[string]*c15Cfg{}
	owner := map[string]string{}
	for _, cfg := range configs {
		revs := uint32(0)
		if cfg.RevsLimit != nil {
			revs = *cfg.RevsLimit
		}
		got := &c15Cfg{version: cfg.Version, revs: revs, cols: c15Cols(cfg, w)}
		present[cfg.Name] = got
		match := false
		for _, a := range allowed[cfg.Name] {
			if a != nil && a.version == got.version && a.revs == got.revs && (a.cols == "" || a.cols == got.cols) {
				match = true
			}
		}
		if !match {
			r.Violate("C15/half-applied-or-unknown-config/"+tag, fmt.Sprintf("database %s loaded as version=%s revs_limit=%d collections=%s which is neither the complete previous nor the complete new configuration %s; %s", cfg.Name, got.version, got.revs, got.cols, c15Allowed(allowed[cfg.Name]), desc), rep)
		}
		if g, ok := registry.ConfigGroups[w.e.group]; !ok || g.Databases[cfg.Name] == nil || g.Databases[cfg.Name].Version != cfg.Version {
			rv := "<absent>"
			if ok && g.Databases[cfg.Name] != nil {
				rv = g.Databases[cfg.Name].Version
			}
			r.Violate("C15/version-differs-from-registry/"+tag, fmt.Sprintf("database %s loaded at version %s but the registry records %s; %s", cfg.Name, cfg.Version, rv, desc), rep)
		}
		for _, ch := range got.cols {
			if o, dup := owner[string(ch)]; dup {
				r.Violate("C15/collection-owned-twice/"+tag, fmt.Sprintf("collection %c is owned by %s and %s; %s", ch, o, cfg.Name, desc), rep)
			}
			owner[string(ch)] = cfg.Name
		}
	}
	for db, as := range allowed {
		if _, here := present[db]; here {
			continue
		}
		absentOK := false
		for _, a := range as {
			if a == nil {
				absentOK = true
			}
		}
		if !absentOK {
			r.Violate("C15/acknowledged-config-lost/"+tag, fmt.Sprintf("database %s is not loaded although only %s are acceptable; %s", db, c15Allowed(as), desc), rep)
		}
	}
	return present, true
}

func c15Allowed(as []*c15Cfg) string {
	var p []string
	for _, a := range as {
		if a == nil {
			p = append(p, "absent")
		} else {
			p = append(p, fmt.Sprintf("{version=%s revs_limit=%d collections=%s}", a.version, a.revs, a.cols))
		}
	}
	return "[" + strings.Join(p, ", ") + "]"
}

// applyPrefix performs completed changes on a healthy node and maintains the model (rejections leave it unchanged).
func (w *c15World) applyPrefix(r *vreport.Report, changes []c15Change, rep c15Case) bool {
	n := w.node(w.e.conn)
	for _, c := range changes {
		cfg, err := w.perform(n, c)
		legal := w.legal(c)
		if err == nil && !legal {
			r.Violate("C15/illegal-change-accepted/"+c.Op, fmt.Sprintf("change %s was accepted with state %s", c, w.modelString()), rep)
			return false
		}
		if err != nil && legal {
			r.Violate("C15/legal-change-rejected/"+c.Op, fmt.Sprintf("change %s failed with %v in state %s", c, err, w.modelString()), rep)
			return false
		}
		if err == nil {
			w.commit(c, cfg)
		}
	}
	return true
}

func (w *c15World) legal(c c15Change) bool {
	switch c.Op {
	case "ins":
		if w.model[c.DB] != nil {
			return false
		}
		return !w.collides(c.DB, c.Cols)
	case "upd":
		if w.model[c.DB] == nil {
			return false
		}
		return c.Cols == "" || !w.collides(c.DB, c.Cols)
	case "del":
		return w.model[c.DB] != nil
	}
	return false
}

func (w *c15World) collides(db, cols string) bool {
	for other, cfg := range w.model {
		if other == db || cfg == nil {
			continue
		}
		for _, ch := range cols {
			if strings.ContainsRune(cfg.cols, ch) {
				return true
			}
		}
	}
	return false
}

func (w *c15World) commit(c c15Change, cfg *c15Cfg) {
	switch c.Op {
	case "ins":
		w.model[c.DB] = cfg
	case "upd":
		if cfg.cols == "" {
			cfg.cols = w.model[c.DB].cols
		}
		w.model[c.DB] = cfg
	case "del":
		delete(w.model, c.DB)
	}
}

func (w *c15World) modelString() string {
	var p []string
	for db, c := range w.model {
		p = append(p, fmt.Sprintf("%s{%s,%d,%s}", db, c.version, c.revs, c.cols))
	}
	sort.Strings(p)
	return strings.Join(p, " ")
}

func (w *c15World) allowedFromModel() map[string][]*c15Cfg {
	a := map[string][]*c15Cfg{}
	for db, c := range w.model {
		a[db] = []*c15Cfg{c}
	}
	return a
}

// followUps: after everything, the same and other databases can still be created, updated and deleted
func (w *c15World) followUps(r *vreport.Report, tag string, present map[string]*c15Cfg, db string, rep c15Case, desc string) {
	n := w.node(w.e.conn)
	w.model = present
	steps := []c15Change{}
	if present[db] != nil {
		steps = append(steps, c15Change{Op: "upd", DB: db}, c15Change{Op: "del", DB: db})
	}
	free := ""
	for _, c := range []string{"1", "2", "3"} {
		if !w.collides("dbx", c) {
			free = c
			break
		}
	}
	if free != "" {
		steps = append(steps, c15Change{Op: "ins", DB: "dbx", Cols: free}, c15Change{Op: "upd", DB: "dbx"}, c15Change{Op: "del", DB: "dbx"})
	}
	for _, s := range steps {
		if !w.legal(s) {
			continue
		}
		cfg, err := w.perform(n, s)
		if err != nil {
			r.Violate("C15/follow-up-change-failed/"+tag+"/"+s.Op, fmt.Sprintf("after recovery the change %s failed: %v (state %s); %s", s, err, w.modelString(), desc), rep)
			return
		}
		w.commit(s, cfg)
	}
	w.observe(r, tag+"/after-follow-ups", w.allowedFromModel(), rep, desc)
}

func (e *c15Env) runCrash(t *testing.T, r *vreport.Report, c c15Case, opsOut *int) {
	w := e.newWorld(t)
	defer w.close()
	if len(w.stores) < 3 {
		t.Fatalf("need 3 collections, have %d", len(w.stores))
	}
	if !w.applyPrefix(r, c.Prefix, c) {
		return
	}
	legal := w.legal(c.Last)
	before := w.model[c.Last.DB]
	dying := vconn.Wrap(e.conn, "n1")
	dying.CrashAt, dying.CrashAfter = c.CrashAt, c.CrashAfter
	n1 := w.node(dying)
	intended, err := w.perform(n1, c.Last)
	if opsOut != nil {
		*opsOut = dying.Ops()
	}
	desc := fmt.Sprintf("prefix %v, last %s (legal=%v), node died %s operation %d of [%s], returned %v", c.Prefix, c.Last, legal, map[bool]string{false: "before", true: "after"}[c.CrashAfter], c.CrashAt, strings.Join(dying.Log, " "), err)
	tag := c.Last.Op
	if c.CrashAt < 0 {
		tag += "/no-crash"
	} else {
		tag += "/crash"
	}
	allowed := w.allowedFromModel()
	switch {
	case !dying.Dead():
		// the change ran to completion on a healthy node
		if err == nil && !legal {
			r.Violate("C15/illegal-change-accepted/"+c.Last.Op, desc, c)
			return
		}
		if err == nil {
			w.commit(c.Last, intended)
			allowed = w.allowedFromModel()
		}
	case legal:
		// interrupted legal change: previous or new complete configuration
		switch c.Last.Op {
		case "ins":
			allowed[c.Last.DB] = []*c15Cfg{nil, intended}
		case "upd":
			if intended != nil && intended.cols == "" && before != nil {
				intended.cols = before.cols
			}
			allowed[c.Last.DB] = []*c15Cfg{before, intended}
		case "del":
			allowed[c.Last.DB] = []*c15Cfg{before, nil}
		}
	}
	// recovery action on a healthy node
	n2 := w.node(e.conn)
	switch c.Recovery {
	case "", "load":
	case "insert-same":
		if c.Last.Op == "ins" {
			cfg, rerr := w.perform(n2, c.Last)
			if rerr == nil {
				allowed[c.Last.DB] = []*c15Cfg{cfg}
			}
		}
	case "insert-other":
		oc := c15Change{Op: "ins", DB: "dby", Cols: "3"}
		if !w.collides("dby", "3") && !strings.Contains(c.Last.Cols, "3") {
			cfg, rerr := w.perform(n2, oc)
			if rerr != nil {
				r.Violate("C15/unrelated-change-blocked/"+tag, fmt.Sprintf("creating an unrelated database after the interrupted change failed: %v; %s", rerr, desc), c)
			} else {
				allowed["dby"] = []*c15Cfg{cfg}
			}
		}
	case "insert-claiming":
		// another database claims the collections the interrupted update was releasing: either it is refused, or the
		// interrupted update can no longer be rolled back onto them (observe checks single ownership)
		othersHold := false
		for other, cfg := range w.model {
			if other != c.Last.DB && cfg != nil && before != nil && strings.ContainsAny(cfg.cols, before.cols) {
				othersHold = true
			}
		}
		if c.Last.Op == "upd" && c.Last.Cols != "" && before != nil && legal && !othersHold && !strings.ContainsAny(c.Last.Cols, before.cols) {
			cfg, rerr := w.perform(n2, c15Change{Op: "ins", DB: "dby", Cols: before.cols})
			if rerr == nil {
				allowed["dby"] = []*c15Cfg{cfg}
				allowed[c.Last.DB] = []*c15Cfg{intended}
			}
		}
	case "update":
		if before != nil && c.Last.Op != "del" {
			cfg, rerr := w.perform(n2, c15Change{Op: "upd", DB: c.Last.DB})
			if rerr == nil {
				cfg.cols = ""
				allowed[c.Last.DB] = []*c15Cfg{cfg}
			}
		}
	case "delete":
		if before != nil {
			if rerr := n2.DeleteConfig(w.ctx, w.bucket, e.group, c.Last.DB); rerr == nil {
				allowed[c.Last.DB] = []*c15Cfg{nil}
			}
		}
	}
	present, ok := w.observe(r, tag+"/"+c.Recovery, allowed, c, desc)
	if !ok {
		return
	}
	// a second load is stable
	present2, ok := w.observe(r, tag+"/"+c.Recovery+"/second-load", allowed, c, desc)
	if ok && fmt.Sprint(c15Keys(present)) != fmt.Sprint(c15Keys(present2)) {
		r.Violate("C15/load-not-stable/"+tag, fmt.Sprintf("two consecutive loads differ: %v vs %v; %s", c15Keys(present), c15Keys(present2), desc), c)
	}
	r.Distinct("outcomes", fmt.Sprintf("%s|%v|%v", c.Last, err == nil, c15Keys(present)))
	w.followUps(r, tag, present, c.Last.DB, c, desc)
}

func c15Keys(m map[string]*c15Cfg) []string {
	var l []string
	for k, v := range m {
		l = append(l, fmt.Sprintf("%s@%s/%d/%s", k, v.version, v.revs, v.cols))
	}
	sort.Strings(l)
	return l
}

// ---- races

func (e *c15Env) raceScenario(t *testing.T, r *vreport.Report, c c15Case) vsched.Scenario {
	w := e.newWorld(t)
	ok := w.applyPrefix(r, c.Prefix, c)
	conns := []*vconn.Conn{vconn.Wrap(e.conn, "n1"), vconn.Wrap(e.conn, "n2")}
	progs := [][]c15Change{{c.Last}, nil}
	if len(c.OtherProg) > 0 {
		progs[1] = c.OtherProg
	} else {
		progs[1] = []c15Change{*c.Other}
	}
	if c.OtherCrash {
		conns[1].CrashAt, conns[1].CrashAfter = c.OtherCrashAt, true
	}
	type c15Res struct {
		ch   c15Change
		th   int
		err  error
		cfg  *c15Cfg
		done bool
	}
	var results []*c15Res
	perThread := make([][]*c15Res, 2)
	for i, pr := range progs {
		for _, ch := range pr {
			res := &c15Res{ch: ch, th: i}
			results = append(results, res)
			perThread[i] = append(perThread[i], res)
		}
	}
	before := map[string]*c15Cfg{}
	for k, v := range w.model {
		before[k] = v
	}
	var mu sync.Mutex
	threads := make([]func(), 2)
	for i := range threads {
		i := i
		threads[i] = func() {
			if !ok {
				return
			}
			n := w.node(conns[i])
			mu.Lock()
			w.counter += 10
			mu.Unlock()
			for j, res := range perThread[i] {
				if conns[i].Dead() {
					res.err = fmt.Errorf("node is dead")
					continue
				}
				res.cfg, res.err = w.performRace(n, res.ch, 1000*(i+1)+j)
				res.done = true
			}
		}
	}
	conns[0].Schedule, conns[1].Schedule = true, true
	return vsched.Scenario{Threads: threads, Cleanup: w.close, Check: func(x *vsched.Exec) map[string]string {
		if !ok {
			return nil
		}
		conns[0].Schedule, conns[1].Schedule = false, false
		viol := map[string]string{}
		var parts []string
		for _, res := range results {
			parts = append(parts, fmt.Sprintf("n%d:%s(err=%v)", res.th+1, res.ch, res.err))
		}
		desc := fmt.Sprintf("race %s after %v; node 2 died=%v [%s]", strings.Join(parts, " "), c.Prefix, conns[1].Dead(), strings.Join(conns[1].Log, " "))
		// acceptable final states: the previous configuration, plus what each change may have produced
		allowed := map[string][]*c15Cfg{}
		for k, v := range before {
			allowed[k] = []*c15Cfg{v}
		}
		touched := map[string]int{}
		for _, res := range results {
			if res.ch.Op != "load" && res.done {
				touched[res.ch.DB]++
			}
		}
		withCols := func(cfg *c15Cfg, prev *c15Cfg) *c15Cfg {
			c2 := *cfg
			if c2.cols == "" && prev != nil {
				c2.cols = prev.cols
			}
			return &c2
		}
		for _, res := range results {
			ch := res.ch
			if ch.Op == "load" || !res.done {
				continue
			}
			prev := before[ch.DB]
			switch {
			case ch.Op == "del" && (res.err == nil || prev != nil):
				// acknowledged, or a legal delete that returned an error: another node may have rolled the
				// in-progress delete forward before this node's final registry write lost its CAS race, so the
				// outcome of an errored (or interrupted) legal change is "previous or new"
				allowed[ch.DB] = append(allowed[ch.DB], nil)
			case res.err != nil && res.cfg != nil && (ch.Op == "upd" || ch.Op == "ins"):
				// errored or interrupted: previous or new (whether it was legal depends on the interleaving)
				allowed[ch.DB] = append(allowed[ch.DB], withCols(res.cfg, prev))
				if ch.Op == "ins" {
					allowed[ch.DB] = append(allowed[ch.DB], nil)
				}
			case res.err == nil:
				allowed[ch.DB] = append(allowed[ch.DB], withCols(res.cfg, prev))
			}
		}
		// an acknowledged change is not lost unless another change also acted on the same database
		for _, res := range results {
			ch := res.ch
			if ch.Op == "load" || !res.done || res.err != nil || touched[ch.DB] != 1 {
				continue
			}
			if ch.Op == "del" {
				allowed[ch.DB] = []*c15Cfg{nil}
			} else {
				allowed[ch.DB] = []*c15Cfg{withCols(res.cfg, before[ch.DB])}
			}
		}
		changes := []c15Change{c.Last, progs[1][len(progs[1])-1]}
		errs := []error{perThread[0][0].err, perThread[1][len(perThread[1])-1].err}
		rr := vreport.Begin("C15-inner")
		present, good := w.observe(rr, "race", allowed, c, desc)
		_ = good
		w.followUps(rr, "race", present, c.Last.DB, c, desc)
		for _, v := range rrViolations(rr) {
			viol[v[0]] = v[1]
		}
		// root cause of a lost acknowledged insert, so that a listed mechanism does not hide a different loss: the registry
		// entry written by the inserter was rolled back by a loader that found no config document (the inserter was
		// between its registry write and its config insert), and the inserter's config insert then succeeded unfenced
		if d, lost := viol["C15/acknowledged-config-lost/race"]; lost {
			hn := w.node(w.e.conn)
			if reg, rerr := hn.getGatewayRegistry(w.ctx, w.bucket); rerr == nil {
				for _, res := range results {
					if res.ch.Op != "ins" || res.err != nil || !res.done || touched[res.ch.DB] != 1 || before[res.ch.DB] != nil {
						continue
					}
					var orphan DatabaseConfig
					_, gerr := hn.GetConfig(w.ctx, w.bucket, w.e.group, res.ch.DB, &orphan)
					g := reg.ConfigGroups[w.e.group]
					inRegistry := g != nil && g.Databases[res.ch.DB] != nil
					rolledBackByLoader := false
					for _, l := range conns[1-res.th].Log {
						if strings.Contains(l, "Write(_sync:registry)") {
							rolledBackByLoader = true
						}
					}
					if gerr == nil && orphan.Version == res.cfg.version && !inRegistry && rolledBackByLoader {
						delete(viol, "C15/acknowledged-config-lost/race")
						viol["C15/race/acknowledged-insert-orphaned-by-loader-rollback"] = d
					}
				}
			}
		}
		// both acknowledged but conflicting collections?
		if errs[0] == nil && errs[1] == nil && changes[0].Op == "ins" && changes[1].Op == "ins" && changes[0].DB != changes[1].DB {
			for _, ch := range changes[0].Cols {
				if strings.ContainsRune(changes[1].Cols, ch) {
					viol["C15/race/both-owners-of-one-collection-acknowledged"] = desc
				}
			}
		}
		r.Distinct("race_outcomes", fmt.Sprintf("%s|%s|%v|%v|%v", changes[0], changes[1], errs[0] == nil, errs[1] == nil, c15Keys(present)))
		if os.Getenv("VERIF_DEBUG") != "" {
			fmt.Printf("DEBUG %s => present %v viol %v\n  n1 log: %s\n  n2 log: %s\n", desc, c15Keys(present), viol, strings.Join(conns[0].Log, " "), strings.Join(conns[1].Log, " "))
		}
		if len(viol) == 0 {
			return nil
		}
		return viol
	}}
}

// performRace is perform with a caller-chosen marker (no shared counter between threads).
func (w *c15World) performRace(n *bootstrapContext, c c15Change, marker int) (*c15Cfg, error) {
	switch c.Op {
	case "ins":
		version := fmt.Sprintf("1-m%d", marker) // like the product's content digest: different content, different digest
		cfg := getTestDatabaseConfig(w.bucket, c.DB, w.scopes(c.Cols), version)
		revs := uint32(marker)
		cfg.RevsLimit = base.Ptr(revs)
		_, err := n.InsertConfig(w.ctx, w.bucket, w.e.group, cfg)
		return &c15Cfg{version: version, revs: revs, cols: c.Cols}, err
	case "upd":
		revs := uint32(marker)
		var out *c15Cfg
		_, err := n.UpdateConfig(w.ctx, w.bucket, w.e.group, c.DB, func(cur *DatabaseConfig) (*DatabaseConfig, error) {
			gen := 0
			_, _ = fmt.Sscanf(cur.Version, "%d-", &gen)
			cur.Version = fmt.Sprintf("%d-r%d", gen+1, marker)
			cur.RevsLimit = base.Ptr(revs)
			if c.Cols != "" {
				cur.Scopes = w.scopes(c.Cols)
			}
			out = &c15Cfg{version: cur.Version, revs: revs, cols: c.Cols}
			return cur, nil
		})
		return out, err
	case "load":
		_, err := n.GetDatabaseConfigs(w.ctx, w.bucket, w.e.group)
		return nil, err
	case "del":
		return nil, n.DeleteConfig(w.ctx, w.bucket, w.e.group, c.DB)
	}
	return nil, fmt.Errorf("unknown op")
}

// rrViolations extracts the violations recorded in a scratch report.
func rrViolations(rr *vreport.Report) [][2]string { return rr.Violations() }

func TestVerifC15(t *testing.T) {
	r := vreport.Begin("C15")
	defer r.Finish(t)
	r.Rule("(a) for every sequence of up to L changes (insert / update / delete of db1{c1}, db2{c2}, db3{c1,c2}, incl. ones that must be rejected) the node performing the last change dies before and after each of its bootstrap metadata operations, then each recovery action {load, insert same, insert other, insert another database claiming the collections an interrupted update was releasing, update, delete} runs on a healthy node, followed by two loads and follow-up create/update/delete of the same and another database; (b) two nodes each perform one change - or one performs a change while the other loads the configurations (rolling back what looks abandoned), possibly followed by its own change during which it dies after its k-th operation - with every interleaving of their metadata operations up to a preemption bound; non-trivial = distinct case")
	r.Assume("a waiting loader gives up at once (configRetryTimeout = 1ns): a slow node is the same interleaving as a dead one; nodes are bootstrapContexts sharing one in-memory cluster; registry CAS-retry jitter sleeps only cost time")
	e := c15GetEnv(t)
	defer e.closeF()
	var rc c15Case
	if r.Replaying(&rc) {
		if rc.Kind == "race" {
			vsched.ReplayOne(r, c15RaceCfg(e, t, r, rc), rc.Sched)
		} else {
			e.runCrash(t, r, rc, nil)
		}
		return
	}
	singles := []c15Change{{Op: "ins", DB: "db1", Cols: "1"}, {Op: "ins", DB: "db2", Cols: "2"}, {Op: "ins", DB: "db3", Cols: "12"}}
	type seq struct {
		prefix []c15Change
		last   c15Change
	}
	var seqs []seq
	for _, s := range singles {
		seqs = append(seqs, seq{nil, s})
	}
	for _, p := range singles {
		for _, l := range []c15Change{{Op: "upd", DB: p.DB}, {Op: "del", DB: p.DB}, {Op: "ins", DB: "db1", Cols: "1"}, {Op: "ins", DB: "db2", Cols: "2"}, {Op: "ins", DB: "db3", Cols: "12"}, {Op: "upd", DB: p.DB, Cols: "3"}} {
			seqs = append(seqs, seq{[]c15Change{p}, l})
		}
	}
	if r.Thorough() {
		for _, p1 := range singles[:2] {
			for _, p2 := range []c15Change{{Op: "ins", DB: "db2", Cols: "2"}, {Op: "upd", DB: p1.DB}, {Op: "del", DB: p1.DB}} {
				if p2.DB == p1.DB && p2.Op == "ins" {
					continue
				}
				for _, l := range []c15Change{{Op: "upd", DB: p1.DB}, {Op: "del", DB: p1.DB}, {Op: "ins", DB: "db3", Cols: "12"}, {Op: "ins", DB: p1.DB, Cols: p1.Cols}, {Op: "upd", DB: "db2", Cols: "12"}} {
					seqs = append(seqs, seq{[]c15Change{p1, p2}, l})
				}
			}
		}
	}
	recoveries := []string{"load", "insert-same", "insert-other", "insert-claiming", "update", "delete"}
	idx := 0
	for _, s := range seqs {
		// number of metadata operations of the last change, from a crash-free run (every shard that owns a case of this sequence needs it)
		nOps := -1
		getOps := func() int {
			if nOps < 0 {
				n := 0
				e.runCrash(t, r, c15Case{Kind: "crash", Prefix: s.prefix, Last: s.last, CrashAt: -1}, &n)
				nOps = n
			}
			return nOps
		}
		for k := 0; k < 12; k++ {
			for _, after := range []bool{false, true} {
				for _, rec := range recoveries {
					idx++
					if !r.Mine(idx) {
						continue
					}
					if r.Expired() {
						r.Cap("time budget reached")
						break
					}
					if k >= getOps() {
						continue
					}
					c := c15Case{Kind: "crash", Prefix: s.prefix, Last: s.last, CrashAt: k, CrashAfter: after, Recovery: rec}
					e.runCrash(t, r, c, nil)
					r.Add("evaluations", 1)
					r.Add("distinct_nontrivial", 1)
					r.Add("crash_cases", 1)
					if idx%53 == 0 {
						r.Sample(c)
					}
				}
			}
		}
	}
	// (b) races
	bound := 1
	if r.Thorough() {
		bound = 2
	}
	r.Note("race_preemption_bound", bound)
	races := []c15Case{
		{Kind: "race", Last: c15Change{Op: "ins", DB: "db1", Cols: "1"}, Other: &c15Change{Op: "ins", DB: "db2", Cols: "2"}},
		{Kind: "race", Last: c15Change{Op: "ins", DB: "db1", Cols: "1"}, Other: &c15Change{Op: "ins", DB: "db3", Cols: "12"}},
		{Kind: "race", Last: c15Change{Op: "ins", DB: "db1", Cols: "1"}, Other: &c15Change{Op: "ins", DB: "db1", Cols: "1"}},
		{Kind: "race", Prefix: []c15Change{{Op: "ins", DB: "db1", Cols: "1"}}, Last: c15Change{Op: "upd", DB: "db1"}, Other: &c15Change{Op: "upd", DB: "db1"}},
		{Kind: "race", Prefix: []c15Change{{Op: "ins", DB: "db1", Cols: "1"}}, Last: c15Change{Op: "upd", DB: "db1"}, Other: &c15Change{Op: "del", DB: "db1"}},
		{Kind: "race", Prefix: []c15Change{{Op: "ins", DB: "db1", Cols: "1"}}, Last: c15Change{Op: "del", DB: "db1"}, Other: &c15Change{Op: "ins", DB: "db3", Cols: "12"}},
		{Kind: "race", Prefix: []c15Change{{Op: "ins", DB: "db1", Cols: "1"}}, Last: c15Change{Op: "upd", DB: "db1"}, Other: &c15Change{Op: "ins", DB: "db2", Cols: "2"}},
	}
	// a node loading the configurations (which rolls back what looks abandoned) while another node's change is in flight
	ins1 := c15Change{Op: "ins", DB: "db1", Cols: "1"}
	load := c15Change{Op: "load"}
	loadRaces := []c15Case{
		{Kind: "race", Last: ins1, OtherProg: []c15Change{load}},
		{Kind: "race", Prefix: []c15Change{ins1}, Last: c15Change{Op: "upd", DB: "db1"}, OtherProg: []c15Change{load}},
		{Kind: "race", Prefix: []c15Change{ins1}, Last: c15Change{Op: "upd", DB: "db1", Cols: "3"}, OtherProg: []c15Change{load}},
		{Kind: "race", Prefix: []c15Change{ins1}, Last: c15Change{Op: "del", DB: "db1"}, OtherProg: []c15Change{load}},
		{Kind: "race", Prefix: []c15Change{ins1}, Last: c15Change{Op: "upd", DB: "db1", Cols: "3"}, OtherProg: []c15Change{{Op: "ins", DB: "db2", Cols: "1"}, load}},
		{Kind: "race", Last: ins1, OtherProg: []c15Change{load, load}},
	}
	for _, lr := range loadRaces {
		lr.Bound = 2
		races = append(races, lr)
	}
	// ... and that second node then starts the same creation with other content and dies part-way
	for k := 0; k < 11; k++ {
		races = append(races, c15Case{Kind: "race", Last: ins1, OtherProg: []c15Change{load, ins1}, OtherCrash: true, OtherCrashAt: k, Bound: 1})
	}
	for i, rcase := range races {
		if !r.Mine(i) || r.Expired() {
			continue
		}
		if rcase.Bound == 0 {
			rcase.Bound = bound
		}
		vsched.Explore(r, c15RaceCfg(e, t, r, rcase))
		r.Add("race_scenarios", 1)
	}
	r.Add("distinct_nontrivial", r.Get("schedules"))
}

func c15RaceName(c c15Case) string {
	other := fmt.Sprint(c.OtherProg)
	if len(c.OtherProg) == 0 {
		other = c.Other.String()
	}
	crash := ""
	if c.OtherCrash {
		crash = fmt.Sprintf(" (node 2 dies after its operation %d)", c.OtherCrashAt)
	}
	return fmt.Sprintf("race %s vs %s%s after %v", c.Last, other, crash, c.Prefix)
}

func c15RaceCfg(e *c15Env, t *testing.T, r *vreport.Report, c c15Case) vsched.Config {
	return vsched.Config{
		Name:   c15RaceName(c),
		Bound:  c.Bound,
		New:    func() vsched.Scenario { return e.raceScenario(t, r, c) },
		Filter: func(k vsched.Kind) bool { return k == vsched.KStore },
		Whole:  true,
		Replay: func(name string, p []vsched.PrefixEntry) any { cc := c; cc.Sched = p; return cc },
	}
}
