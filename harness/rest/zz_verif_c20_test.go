//go:build verif

package rest

import (
	"encoding/json"
	"fmt"
	"net/url"
	"strings"
	"testing"

	"github.com/couchbase/sync_gateway/verifshim/vreport"
)

// C20 REST clause: GET/POST _changes with a since token. Every string up to length L over the alphabet
// {0,1,9,:,-,a,space} (URL-escaped): well-formed per the independent recogniser => 200, malformed => 4xx
// (never 5xx, never 200).

type c20RestCase struct {
	Kind   string `json:"kind"`
	Method string `json:"method"`
	Since  string `json:"since"`
}

func c20restWellFormed(s string) bool {
	if s == "" {
		return true
	}
	digits := func(c string, allowEmpty bool) bool {
		if c == "" {
			return allowEmpty
		}
		if len(c) > 19 {
			return false
		}
		for _, r := range c {
			if r < '0' || r > '9' {
				return false
			}
		}
		return true
	}
	p := strings.Split(s, ":")
	switch len(p) {
	case 1:
		return digits(p[0], false)
	case 2:
		return digits(p[0], false) && digits(p[1], false)
	case 3:
		return digits(p[0], false) && digits(p[1], true) && digits(p[2], false)
	}
	return false
}

func c20restOne(r *vreport.Report, rt *RestTester, method, since string) {
	var status int
	var body string
	if method == "GET" {
		resp := rt.SendAdminRequest("GET", "/{{.keyspace}}/_changes?since="+url.QueryEscape(since), "")
		status, body = resp.Code, resp.Body.String()
	} else {
		b, _ := json.Marshal(map[string]any{"since": since})
		resp := rt.SendAdminRequest("POST", "/{{.keyspace}}/_changes", string(b))
		status, body = resp.Code, resp.Body.String()
	}
	rep := c20RestCase{Kind: "rest", Method: method, Since: since}
	wf := c20restWellFormed(since)
	r.Distinct("status", fmt.Sprintf("%v/%d", wf, status))
	if wf {
		r.Add("wellformed", 1)
		if status != 200 {
			r.Violate(fmt.Sprintf("C20/rest/%s/wellformed-rejected/%d", method, status), fmt.Sprintf("%s _changes since=%q -> %d %s", method, since, status, body), rep)
		}
		return
	}
	r.Add("malformed", 1)
	if status < 400 || status > 499 {
		r.Violate(fmt.Sprintf("C20/rest/%s/malformed-not-client-error/components=%d/status=%d", method, strings.Count(since, ":")+1, status),
			fmt.Sprintf("%s _changes since=%q -> %d %s (want a 4xx client error)", method, since, status, body), rep)
	}
}

func TestVerifC20Rest(t *testing.T) {
	r := vreport.Begin("C20")
	defer r.Finish(t)
	r.Rule("REST: every string of length <= L over {0,1,9,:,-,a,space} as the since parameter of GET and POST _changes; distinct = distinct (method,string)")
	rt := NewRestTester(t, nil)
	defer rt.Close()
	_ = rt.GetDatabase()

	var rc c20RestCase
	if r.Replaying(&rc) {
		c20restOne(r, rt, rc.Method, rc.Since)
		r.Add("evaluations", 1)
		return
	}
	L := 3
	if r.Thorough() {
		L = 5
	}
	r.Note("L_rest", L)
	alphabet := []string{"0", "1", "9", ":", "-", "a", " "}
	idx := 0
	var gen func(prefix string, depth int)
	gen = func(prefix string, depth int) {
		idx++
		if r.Mine(idx) {
			for _, m := range []string{"GET", "POST"} {
				c20restOne(r, rt, m, prefix)
				r.Add("evaluations", 1)
				r.Add("distinct_nontrivial", 1)
			}
			if idx%97 == 0 {
				r.Sample(map[string]any{"rest_since": prefix})
			}
		}
		if depth == L {
			return
		}
		for _, a := range alphabet {
			gen(prefix+a, depth+1)
		}
	}
	gen("", 0)
}
