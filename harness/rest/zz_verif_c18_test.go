//go:build verif

package rest

import (
	"encoding/json"
	"fmt"
	"net/http"
	"os"
	"sort"
	"strings"
	"testing"

	"github.com/couchbase/sync_gateway/db"
	"github.com/couchbase/sync_gateway/verifshim/vreport"
)

// C18 — resync equals evaluating the new sync function from scratch.
// E3: corpora (subsets of document kinds) x ordered pairs of sync-function templates x regenerate_sequences;
// the real resync runs on an in-memory bucket; afterwards per-document channels and grants are compared with
// a Go mirror of the new function, users' effective channels and visible document sets with the model and with
// a fresh database that used the new function from the beginning; a second resync must change nothing.

type c18Fn struct {
	Name string
	JS   string
	Eval func(doc map[string]any) (chans []string, access map[string][]string, roles map[string][]string, rejected bool)
}

func c18Strs(v any) []string {
	switch x := v.(type) {
	case string:
		return []string{x}
	case []any:
		var out []string
		for _, e := range x {
			if s, ok := e.(string); ok {
				out = append(out, s)
			}
		}
		return out
	}
	return nil
}

// grants first, validation last: a document the function ends up rejecting has already called access() and role()
var c18GrantThenReject = c18Fn{"grant-then-reject", `function(doc){ channel(doc.y); if (doc.gu) { access(doc.gu, "H2"); } if (doc.ru) { role(doc.ru, "role:" + doc.rr); } if (doc.bad) { throw({forbidden: "bad"}); } }`, func(d map[string]any) ([]string, map[string][]string, map[string][]string, bool) {
	if d["bad"] == true {
		return nil, nil, nil, true
	}
	acc, rol := map[string][]string{}, map[string][]string{}
	if gu, ok := d["gu"].(string); ok {
		acc[gu] = []string{"H2"}
	}
	if ru, ok := d["ru"].(string); ok {
		rol[ru] = c18Strs(d["rr"])
	}
	return c18Strs(d["y"]), acc, rol, false
}}

var c18Fns = []c18Fn{
	{"chan-x", `function(doc){ channel(doc.x); }`, func(d map[string]any) ([]string, map[string][]string, map[string][]string, bool) {
		return c18Strs(d["x"]), nil, nil, false
	}},
	{"chan-y", `function(doc){ channel(doc.y); }`, func(d map[string]any) ([]string, map[string][]string, map[string][]string, bool) {
		return c18Strs(d["y"]), nil, nil, false
	}},
	{"grants", `function(doc){ channel(doc.x); if (doc.gu) { access(doc.gu, doc.gc); } if (doc.ru) { role(doc.ru, "role:" + doc.rr); } }`, func(d map[string]any) ([]string, map[string][]string, map[string][]string, bool) {
		acc, rol := map[string][]string{}, map[string][]string{}
		if gu, ok := d["gu"].(string); ok {
			acc[gu] = c18Strs(d["gc"])
		}
		if ru, ok := d["ru"].(string); ok {
			rol[ru] = c18Strs(d["rr"])
		}
		return c18Strs(d["x"]), acc, rol, false
	}},
	{"constant", `function(doc){ channel("K"); }`, func(d map[string]any) ([]string, map[string][]string, map[string][]string, bool) {
		return []string{"K"}, nil, nil, false
	}},
	{"reject-bad", `function(doc){ if (doc.bad) { throw({forbidden: "bad"}); } channel(doc.y); if (doc.gu) { access(doc.gu, "H"); } }`, func(d map[string]any) ([]string, map[string][]string, map[string][]string, bool) {
		if d["bad"] == true {
			return nil, nil, nil, true
		}
		acc := map[string][]string{}
		if gu, ok := d["gu"].(string); ok {
			acc[gu] = []string{"H"}
		}
		return c18Strs(d["y"]), acc, nil, false
	}},
	c18GrantThenReject,
}

type c18Kind struct {
	Name    string
	Body    string
	Deleted bool
	Att     bool
}

var c18Kinds = []c18Kind{
	{Name: "live", Body: `{"x":"A","y":"B"}`},
	{Name: "tombstone", Body: `{"x":"A","y":"B"}`, Deleted: true},
	{Name: "grant-channel", Body: `{"x":"A","y":"B","gu":"u1","gc":"G"}`},
	{Name: "grant-role", Body: `{"x":"C","y":"B","ru":"u1","rr":"r1"}`},
	{Name: "two-channels", Body: `{"x":["A","C"],"y":["B"]}`},
	{Name: "attachment", Body: `{"x":"A","y":"D"}`, Att: true},
	{Name: "bad", Body: `{"x":"A","y":"B","bad":true,"gu":"u1","gc":"G"}`},
	{Name: "bad-role", Body: `{"x":"C","y":"B","bad":true,"ru":"u1","rr":"r1"}`},
}

type c18Case struct {
	Kinds []int `json:"kinds"`
	F1    int   `json:"f1"`
	F2    int   `json:"f2"`
	Regen bool  `json:"regen"`
	// Observe: every user is loaded (effective channels and visible documents read) between the writes and the resync
	Observe bool `json:"observe"`
}

func (c c18Case) String() string {
	var k []string
	for _, i := range c.Kinds {
		k = append(k, c18Kinds[i].Name)
	}
	return fmt.Sprintf("docs=%v %s->%s regenerate=%v users-loaded-before-resync=%v", k, c18Fns[c.F1].Name, c18Fns[c.F2].Name, c.Regen, c.Observe)
}

func c18Setup(t testing.TB, fn string) *RestTester {
	rt := NewRestTesterDefaultCollection(t, &RestTesterConfig{SyncFn: fn, PersistentConfig: true})
	RequireStatus(t, rt.CreateDatabase("db", rt.NewDbConfig()), http.StatusCreated)
	rt.CreateRole("r1", []string{"R"})
	rt.CreateUser("u1", nil)
	rt.CreateUser("u2", []string{"B"})
	return rt
}

// write the corpus; returns ids of documents that were accepted
func c18Write(rt *RestTester, c c18Case, fn c18Fn) map[string]c18Kind {
	accepted := map[string]c18Kind{}
	for _, ki := range c.Kinds {
		k := c18Kinds[ki]
		id := "doc-" + k.Name
		var m map[string]any
		_ = json.Unmarshal([]byte(k.Body), &m)
		if _, _, _, rej := fn.Eval(m); rej {
			continue // this function refuses the document: it cannot be part of the corpus under this function
		}
		var version DocVersion
		if k.Att {
			version = rt.PutDocWithAttachment(id, k.Body, "a.txt", "aGVsbG8=")
		} else {
			version = rt.PutDoc(id, k.Body)
		}
		if k.Deleted {
			rt.DeleteDoc(id, version)
		}
		accepted[id] = k
	}
	rt.WaitForPendingChanges()
	return accepted
}

func c18RawSync(rt *RestTester, id string) map[string]any {
	resp := rt.SendAdminRequest("GET", "/{{.keyspace}}/_raw/"+id+"?include_doc=false", "")
	if resp.Code != 200 {
		if os.Getenv("VERIF_DEBUG") != "" {
			fmt.Printf("DEBUG raw %s -> %d %s\n", id, resp.Code, resp.Body.String())
		}
		return nil
	}
	var m map[string]any
	_ = json.Unmarshal(resp.Body.Bytes(), &m)
	x, _ := m["_xattrs"].(map[string]any)
	s, _ := x["_sync"].(map[string]any)
	return s
}

func c18ActiveChannels(sync map[string]any) []string {
	var out []string
	chans, _ := sync["channels"].(map[string]any)
	for name, v := range chans {
		if v == nil {
			out = append(out, name)
		}
	}
	sort.Strings(out)
	return out
}

func c18UserChannels(rt *RestTester, name string) []string {
	resp := rt.SendAdminRequest("GET", "/{{.db}}/_user/"+name, "")
	var m struct {
		All   []string `json:"all_channels"`
		Roles []string `json:"roles"`
	}
	_ = json.Unmarshal(resp.Body.Bytes(), &m)
	sort.Strings(m.All)
	return m.All
}

func c18Visible(rt *RestTester, user string) []string {
	resp := rt.SendUserRequest("GET", "/{{.keyspace}}/_all_docs", "", user)
	var m struct {
		Rows []struct {
			ID string `json:"id"`
		} `json:"rows"`
	}
	_ = json.Unmarshal(resp.Body.Bytes(), &m)
	var ids []string
	for _, r := range m.Rows {
		ids = append(ids, r.ID)
	}
	sort.Strings(ids)
	return ids
}

func c18Resync(rt *RestTester, regen bool) {
	rt.TakeDbOffline()
	resp := rt.SendAdminRequest("POST", fmt.Sprintf("/{{.db}}/_resync?regenerate_sequences=%v", regen), "")
	RequireStatus(rt.TB(), resp, http.StatusOK)
	rt.WaitForResyncDCPStatus(db.BackgroundProcessStateCompleted)
	rt.TakeDbOnline()
	rt.WaitForPendingChanges()
}

func c18Run(t testing.TB, r *vreport.Report, c c18Case) {
	f1, f2 := c18Fns[c.F1], c18Fns[c.F2]
	rt := c18Setup(t, f1.JS)
	defer rt.Close()
	docs := c18Write(rt, c, f1)
	if c.Observe {
		for _, u := range []string{"u1", "u2"} {
			c18UserChannels(rt, u)
			c18Visible(rt, u)
		}
	}
	// change the sync function and resync
	RequireStatus(t, rt.SendAdminRequest(http.MethodPut, "/{{.keyspace}}/_config/sync", f2.JS), http.StatusOK)
	c18Resync(rt, c.Regen)
	tag := fmt.Sprintf("%s-to-%s/regenerate=%v/users-loaded-before=%v", f1.Name, f2.Name, c.Regen, c.Observe)
	desc := c.String()
	// model under F2
	userCh := map[string]map[string]bool{"u1": {"!": true}, "u2": {"!": true, "B": true}}
	u1Roles := map[string]bool{}
	docCh := map[string][]string{}
	for id, k := range docs {
		var m map[string]any
		_ = json.Unmarshal([]byte(k.Body), &m)
		chans, acc, rol, rej := f2.Eval(m)
		if k.Deleted {
			continue
		}
		if rej {
			docCh[id] = nil
			continue
		}
		sort.Strings(chans)
		docCh[id] = chans
		for u, cs := range acc {
			for _, ch := range cs {
				if userCh[u] != nil {
					userCh[u][ch] = true
				}
			}
		}
		for u, rs := range rol {
			if u == "u1" {
				for _, rr := range rs {
					u1Roles[rr] = true
				}
			}
		}
	}
	if u1Roles["r1"] {
		userCh["u1"]["R"] = true
	}
	keys := func(m map[string]bool) []string {
		var l []string
		for k := range m {
			l = append(l, k)
		}
		sort.Strings(l)
		return l
	}
	// per document
	for id, k := range docs {
		if k.Deleted {
			continue
		}
		sync := c18RawSync(rt, id)
		got := c18ActiveChannels(sync)
		if os.Getenv("VERIF_DEBUG") != "" {
			b, _ := json.Marshal(sync)
			fmt.Printf("DEBUG %s %s\n", id, b)
		}
		want := docCh[id]
		if strings.Join(got, ",") != strings.Join(want, ",") {
			r.Violate("C18/document-channels-wrong/"+k.Name+"/"+tag, fmt.Sprintf("after resync document %s is in channels %v, the new function assigns %v; %s", id, got, want, desc), c)
		}
	}
	// per user: effective channels and visible documents
	visibleModel := map[string][]string{}
	for u, chs := range userCh {
		got := c18UserChannels(rt, u)
		if strings.Join(got, ",") != strings.Join(keys(chs), ",") {
			r.Violate("C18/user-channels-wrong/"+tag, fmt.Sprintf("after resync user %s has channels %v, expected %v; %s", u, got, keys(chs), desc), c)
		}
		var vis []string
		for id, chans := range docCh {
			for _, ch := range chans {
				if chs[ch] {
					vis = append(vis, id)
					break
				}
			}
		}
		sort.Strings(vis)
		visibleModel[u] = vis
		gotVis := c18Visible(rt, u)
		if strings.Join(gotVis, ",") != strings.Join(vis, ",") {
			r.Violate("C18/visible-documents-wrong/"+tag, fmt.Sprintf("after resync user %s sees %v, expected %v; %s", u, gotVis, vis, desc), c)
		}
	}
	// differential: a database that used the new function from the beginning (documents the new function rejects cannot be written there)
	hasRejected := false
	for _, ki := range c.Kinds {
		var m map[string]any
		_ = json.Unmarshal([]byte(c18Kinds[ki].Body), &m)
		if _, _, _, rej := f2.Eval(m); rej {
			hasRejected = true
		}
		if _, _, _, rej := f1.Eval(m); rej {
			hasRejected = true
		}
	}
	if !hasRejected {
		fresh := c18Setup(t, f2.JS)
		c18Write(fresh, c, f2)
		for _, u := range []string{"u1", "u2"} {
			a, b := c18Visible(rt, u), c18Visible(fresh, u)
			if strings.Join(a, ",") != strings.Join(b, ",") {
				r.Violate("C18/differs-from-fresh-database/visible/"+tag, fmt.Sprintf("user %s sees %v after resync but %v in a database that used the new function from the start; %s", u, a, b, desc), c)
			}
			ca, cb := c18UserChannels(rt, u), c18UserChannels(fresh, u)
			if strings.Join(ca, ",") != strings.Join(cb, ",") {
				r.Violate("C18/differs-from-fresh-database/user-channels/"+tag, fmt.Sprintf("user %s has %v after resync but %v in a fresh database; %s", u, ca, cb, desc), c)
			}
		}
		for id, k := range docs {
			if k.Deleted {
				continue
			}
			a, b := c18ActiveChannels(c18RawSync(rt, id)), c18ActiveChannels(c18RawSync(fresh, id))
			if strings.Join(a, ",") != strings.Join(b, ",") {
				r.Violate("C18/differs-from-fresh-database/document-channels/"+tag, fmt.Sprintf("document %s: %v after resync, %v in a fresh database; %s", id, a, b, desc), c)
			}
		}
		fresh.Close()
	}
	// a second resync changes nothing
	before := map[string]string{}
	for id := range docs {
		s := c18RawSync(rt, id)
		delete(s, "cas")
		delete(s, "time_saved")
		delete(s, "value_crc32c")
		b, _ := json.Marshal(s)
		before[id] = string(b)
	}
	c18Resync(rt, false)
	for id := range docs {
		s := c18RawSync(rt, id)
		delete(s, "cas")
		delete(s, "time_saved")
		delete(s, "value_crc32c")
		b, _ := json.Marshal(s)
		if string(b) != before[id] {
			r.Violate("C18/second-resync-changed-document/"+tag, fmt.Sprintf("document %s metadata changed on a second resync:\n before %s\n after  %s; %s", id, before[id], b, desc), c)
		}
	}
	for u := range userCh {
		if got := c18Visible(rt, u); strings.Join(got, ",") != strings.Join(visibleModel[u], ",") {
			r.Violate("C18/second-resync-changed-visibility/"+tag, fmt.Sprintf("user %s sees %v after the second resync, expected %v; %s", u, got, visibleModel[u], desc), c)
		}
	}
}

func TestVerifC18(t *testing.T) {
	r := vreport.Begin("C18")
	defer r.Finish(t)
	r.Rule("corpora = subsets of size <= S of 8 document kinds (live, tombstoned, granting a channel, granting a role, two channels, with attachment, two kinds rejected by some functions, one granting a channel and one a role; quick: all singles and the pairs among the granting / rejected kinds) x ordered pairs of 6 sync-function templates (channel from field x, from field y, grants from fields, constant channel, reject-some with a different grant, grant first and validate last) x regenerate_sequences x {users loaded between the writes and the resync, or not}; real resync; Go mirror of the new function + differential against a fresh database + second resync; non-trivial = distinct (corpus, function pair, option)")
	r.Assume("conflicted documents are not part of the corpora (this server version cannot create them through REST); writes racing with the resync are not explored (the database is offline during resync)")
	var rc c18Case
	if r.Replaying(&rc) {
		c18Run(t, r, rc)
		return
	}
	S := 2
	if r.Thorough() {
		S = 3
	}
	r.Note("max_corpus_size", S)
	var corpora [][]int
	var choose func(start int, cur []int)
	choose = func(start int, cur []int) {
		if len(cur) > 0 {
			corpora = append(corpora, append([]int{}, cur...))
		}
		if len(cur) == S {
			return
		}
		for i := start; i < len(c18Kinds); i++ {
			choose(i+1, append(cur, i))
		}
	}
	choose(0, nil)
	if !r.Thorough() {
		// quick: every single-document corpus, and pairs among the kinds that carry grants or get rejected
		var kept [][]int
		core := map[string]bool{"live": true, "grant-channel": true, "grant-role": true, "bad": true, "bad-role": true}
		for _, corp := range corpora {
			ok := len(corp) == 1
			if len(corp) == 2 && core[c18Kinds[corp[0]].Name] && core[c18Kinds[corp[1]].Name] {
				ok = true
			}
			if ok {
				kept = append(kept, corp)
			}
		}
		corpora = kept
	}
	idx := 0
	for _, corp := range corpora {
		for f1 := range c18Fns {
			for f2 := range c18Fns {
				if f1 == f2 {
					continue
				}
				for _, regen := range []bool{false, true} {
					for _, observe := range []bool{false, true} {
						idx++
						if !r.Mine(idx) || r.Expired() {
							continue
						}
						c := c18Case{Kinds: corp, F1: f1, F2: f2, Regen: regen, Observe: observe}
						c18Run(t, r, c)
						r.Add("evaluations", 1)
						r.Add("distinct_nontrivial", 1)
						if idx%97 == 0 {
							r.Sample(map[string]any{"case": c.String()})
						}
					}
				}
			}
		}
	}
	if r.Expired() {
		r.Cap("time budget reached before all cases were explored")
	}
}
