//go:build verif

package rest

import (
	"encoding/base64"
	"encoding/json"
	"fmt"
	"strings"
	"testing"
	"time"

	"github.com/couchbase/go-blip"
	"github.com/couchbase/sync_gateway/db"
	"github.com/couchbase/sync_gateway/verifshim/vreport"
)

// C02 (part b) — the replication protocol as a read surface: every user of the part-a world connects over the real
// BLIP websocket and (1) asks for the changes feed (subChanges), (2) pulls every offered revision with its
// attachments, (3) asks directly for each attachment by digest (with and without naming a document) outside of any
// revision being sent, (4) asks for revisions it was not offered (by answering a changes message is not possible for
// ids that are not offered; instead the unsolicited getAttachment / proveAttachment requests are the direct probes).
// Nothing a user's channels do not show may appear in what comes back.

type c02bCase struct {
	Variant string `json:"variant"`
	User    string `json:"user"`
	Probe   string `json:"probe"`
}

func c02bRun(t *testing.T, r *vreport.Report, w *c02World, c c02bCase) {
	rt := w.rt
	bt := NewBlipTesterFromSpecWithRT(rt, &BlipTesterSpec{connectingUsername: c.User})
	defer bt.Close()
	leakCheck := func(surface, raw string) {
		for _, rv := range w.revs {
			if rv.deleted {
				continue
			}
			if strings.Contains(raw, rv.marker) && !w.canSee(c.User, rv.chans) {
				r.Violate("C02/blip/body-disclosed/"+surface, fmt.Sprintf("user %s (channels %v) received the body of %s rev %s (channels %v) through %s [variant %s]", c.User, w.users[c.User], rv.doc, rv.rev, rv.chans, surface, w.variant), c)
			}
		}
		for _, am := range []struct {
			mark  string
			chans []string
		}{{w.attMark, []string{"A"}}, {w.att2Mark, w.att2Chans}} {
			if am.mark == "" {
				continue
			}
			if (strings.Contains(raw, am.mark) || strings.Contains(raw, base64.StdEncoding.EncodeToString([]byte(am.mark)))) && !w.canSee(c.User, am.chans) {
				r.Violate("C02/blip/attachment-disclosed/"+surface, fmt.Sprintf("user %s (channels %v) received attachment data that only revisions in channels %v carry, through %s [variant %s]", c.User, w.users[c.User], am.chans, surface, w.variant), c)
			}
		}
	}
	switch c.Probe {
	case "subChanges":
		changes := bt.GetChanges()
		raw, _ := json.Marshal(changes)
		for _, d := range w.docs {
			if !w.everVisible(c.User, d) && strings.Contains(string(raw), `"`+d+`"`) {
				r.Violate("C02/blip/existence-revealed/subChanges", fmt.Sprintf("user %s (channels %v) is offered document %s, which was never in one of its channels: %.300s", c.User, w.users[c.User], d, raw), c)
			}
		}
		leakCheck("subChanges", string(raw))
		r.Add("blip_changes_entries", int64(len(changes)))
	case "subChangesDocIDs", "subChangesDocIDsSince":
		// one-shot subChanges restricted to given document ids (every id of the world)
		got := make(chan string, 64)
		bt.blipContext.HandlerForProfile["changes"] = func(request *blip.Message) {
			body, _ := request.Body()
			if !request.NoReply() {
				response := request.Response()
				response.SetBody([]byte("[]"))
			}
			got <- string(body)
		}
		req := blip.NewRequest()
		req.SetProfile("subChanges")
		bt.addCollectionProperty(req)
		req.Properties["continuous"] = "false"
		if c.Probe == "subChangesDocIDsSince" {
			req.Properties["since"] = `"3"`
		}
		idsJSON, _ := json.Marshal(map[string]any{"docIDs": w.docs})
		req.SetBody(idsJSON)
		bt.Send(req)
		_ = req.Response()
		var all []string
		for done := false; !done; {
			select {
			case b := <-got:
				if b == "null" || b == "" {
					done = true
				} else {
					all = append(all, b)
				}
			case <-time.After(20 * time.Second):
				r.Cap("a subChanges probe was abandoned: no end-of-changes message within 20 s")
				done = true
			}
		}
		delete(bt.blipContext.HandlerForProfile, "changes")
		raw := strings.Join(all, " ")
		for _, d := range w.docs {
			if !w.everVisible(c.User, d) && strings.Contains(raw, `"`+d+`"`) {
				r.Violate("C02/blip/existence-revealed/subChanges-docIDs", fmt.Sprintf("user %s (channels %v) is offered document %s, which was never in one of its channels, by a subChanges restricted to document ids: %.300s", c.User, w.users[c.User], d, raw), c)
			}
		}
		leakCheck("subChanges-docIDs", raw)
		r.Add("blip_changes_messages", int64(len(all)))
	case "pull":
		docs := bt.PullDocs()
		for id, doc := range docs {
			b, _ := json.Marshal(doc)
			raw := string(b)
			if atts, err := doc.GetAttachments(); err == nil {
				for _, a := range atts {
					raw += " " + string(a.Data)
				}
			}
			if !w.everVisible(c.User, id) {
				r.Violate("C02/blip/existence-revealed/pull", fmt.Sprintf("user %s (channels %v) was sent document %s, which was never in one of its channels", c.User, w.users[c.User], id), c)
			}
			leakCheck("pull", raw)
		}
		r.Add("blip_docs_pulled", int64(len(docs)))
	case "getAttachment":
		// unsolicited attachment requests: by digest, naming each document of the world (and none)
		for _, am := range []struct {
			mark  string
			doc   string
			chans []string
		}{{w.attMark, w.attDoc, []string{"A"}}, {w.att2Mark, "docattmoved", w.att2Chans}} {
			if am.mark == "" {
				continue
			}
			digest := db.Sha1DigestKey([]byte(am.mark))
			ids := append([]string{"", am.doc}, w.docs...)
			for _, id := range ids {
				req := blip.NewRequest()
				req.SetProfile(db.MessageGetAttachment)
				req.Properties[db.GetAttachmentDigest] = digest
				if id != "" {
					req.Properties[db.GetAttachmentID] = id
				}
				bt.addCollectionProperty(req)
				bt.Send(req)
				resp := req.Response()
				body, _ := resp.Body()
				if resp.Properties["Error-Code"] == "" && strings.Contains(string(body), am.mark) {
					// the property allows an attachment download only while a revision that references it is being sent to this
					// client; here none is
					r.Violate("C02/blip/attachment-served-outside-a-revision-transfer", fmt.Sprintf("user %s (channels %v) obtained the attachment of %s (channels %v) with an unsolicited getAttachment naming document %q [variant %s]", c.User, w.users[c.User], am.doc, am.chans, id, w.variant), c)
				}
				r.Add("blip_attachment_probes", 1)
			}
		}
	}
}

func TestVerifC02Blip(t *testing.T) {
	r := vreport.Begin("C02")
	defer r.Finish(t)
	r.Rule("(b) the part-a worlds over the replication protocol: every user connects over the real BLIP websocket and {asks for the changes feed, asks for the changes of given document ids (all ids of the world; from the start and from a later position), pulls every offered revision with attachments, sends unsolicited getAttachment requests for each attachment's digest naming no / the owning / every other document}; non-trivial = distinct (variant, user, probe)")
	r.Assume("one-shot subChanges; the client side is the repository's BlipTester; proposeChanges / push are write surfaces (C04, C19)")
	var rc c02bCase
	if r.Replaying(&rc) {
		w := c02Build(t, rc.Variant)
		defer w.rt.Close()
		c02bRun(t, r, w, rc)
		return
	}
	idx := 0
	for _, variant := range []string{"default", "reverse", "principals-last"} {
		var w *c02World
		for _, user := range []string{"uA", "uRB", "uNone", "uStar", "uAcc"} {
			for _, probe := range []string{"subChanges", "subChangesDocIDs", "subChangesDocIDsSince", "pull", "getAttachment"} {
				idx++
				if !r.Mine(idx) || r.Expired() {
					continue
				}
				if w == nil {
					w = c02Build(t, variant)
				}
				c := c02bCase{Variant: variant, User: user, Probe: probe}
				c02bRun(t, r, w, c)
				r.Add("evaluations", 1)
				r.Add("distinct_nontrivial", 1)
				r.Sample(c)
			}
		}
		if w != nil {
			w.rt.Close()
		}
	}
}
