//go:build verif

package rest

import (
	"fmt"
	"strings"
	"testing"
	"time"

	"github.com/couchbase/sync_gateway/base"
	"github.com/couchbase/sync_gateway/db"
	"github.com/couchbase/sync_gateway/verifshim/vreport"
)

// C06 part d — local writes while a continuous push-and-pull replication is running.
//
// One continuous replication stays up for a whole group of histories. A history is a sequence over {editA, editP, delA,
// delP, sync} on its own document: writes that are not separated by "sync" reach the two peers while the replication
// is carrying the previous ones (which of them the other peer has seen is the runtime's choice, as in production);
// "sync" waits until both peers hold a marker document written after it on the other side and then until the
// document reads the same on both peers. Every history ends with a sync; a document that still differs when the
// horizon (40 s, several marker rounds) is reached is a divergence, judged with the same root-cause recognition as
// the other parts.

var c06ContAlphabet = []string{"editA", "editP", "delA", "delP", "sync"}

type c06Cont struct {
	w       *c06World
	markers int
}

// barrier writes a marker on each peer and waits until each has reached the other one
func (c *c06Cont) barrier(timeout time.Duration) bool {
	c.markers++
	ma, mp := fmt.Sprintf("mkA%d", c.markers), fmt.Sprintf("mkP%d", c.markers)
	for id, rt := range map[string]*RestTester{ma: c.w.active, mp: c.w.passive} {
		resp := rt.SendAdminRequest("PUT", "/{{.keyspace}}/"+id, `{"channels":["alice"],"marker":true}`)
		if resp.Code != 201 {
			c.w.t.Fatalf("marker %s: %d %s", id, resp.Code, resp.Body.String())
		}
	}
	deadline := time.Now().Add(timeout)
	for time.Now().Before(deadline) {
		if c06Read(c.w.passive, ma).Exists && c06Read(c.w.active, mp).Exists {
			return true
		}
		time.Sleep(5 * time.Millisecond)
	}
	return false
}

func c06Agree(a, p c06State, protocol string) bool {
	if a.Exists != p.Exists || a.Deleted != p.Deleted || a.Body != p.Body || a.Atts != p.Atts {
		return false
	}
	if protocol == "v3" && a.RevTree != p.RevTree {
		return false
	}
	if protocol == "v4" && a.CV != p.CV {
		return false
	}
	return true
}

// sync: markers both ways, then the document has to read the same on both peers (state wait with a generous horizon)
func (c *c06Cont) sync(docID, protocol string) (agreed, markersOK bool) {
	deadline := time.Now().Add(40 * time.Second)
	for round := 0; time.Now().Before(deadline); round++ {
		if !c.barrier(20 * time.Second) {
			return false, false
		}
		settle := time.Now().Add(2 * time.Second)
		for time.Now().Before(settle) {
			if c06Agree(c06Read(c.w.active, docID), c06Read(c.w.passive, docID), protocol) {
				return true, true
			}
			time.Sleep(5 * time.Millisecond)
		}
	}
	return false, true
}

func c06ContHistory(t testing.TB, r *vreport.Report, c c06Case, cont *c06Cont, docID string) (valid bool) {
	w := cont.w
	w.doc, w.c = docID, c
	tag := c.Protocol + "/" + c.Resolver + "/continuous"
	tag0 := c.Protocol + "/" + c.Resolver
	judge := func(step int) bool {
		agreed, markersOK := cont.sync(docID, c.Protocol)
		if !markersOK {
			r.Add("continuous_histories_abandoned", 1)
			r.Cap("a continuous-replication history was abandoned: a marker document did not cross within 20 s")
			return false
		}
		if agreed {
			return true
		}
		a, p := c06Read(w.active, docID), c06Read(w.passive, docID)
		desc := fmt.Sprintf("active=%+v passive=%+v; %s (after step %d)", a, p, c, step+1)
		if a.Deleted && p.Deleted && a.Exists && p.Exists && c.Protocol == "v4" && a.CV != p.CV && a.Body == p.Body {
			r.Violate(c06Prop+"/diverged/independent-deletes-keep-different-current-versions/"+tag0, "with a continuous push-and-pull running both peers hold a tombstone under different current versions: "+desc, c)
			return false
		}
		if cause := c06RootCause(a, p); cause != "" {
			r.Violate(c06Prop+"/diverged/"+cause+"/"+tag0, "with a continuous push-and-pull running, 40 s and several marker rounds after the last write: "+desc, c)
			return false
		}
		r.Violate(c06Prop+"/diverged/"+tag+"/"+strings.Join(c.Ops, ","), "with a continuous push-and-pull running, 40 s and several marker rounds after the last write the peers still differ: "+desc, c)
		return false
	}
	for i, op := range c.Ops {
		ok := true
		switch op {
		case "editA":
			ok = w.tryWrite(w.active, "A", false)
		case "editP":
			ok = w.tryWrite(w.passive, "P", false)
		case "delA":
			ok = w.tryWrite(w.active, "A", true)
		case "delP":
			ok = w.tryWrite(w.passive, "P", true)
		case "sync":
			if !judge(i) {
				return true
			}
		}
		if !ok {
			// the write was refused: the replication changed the document between the harness's read of the current
			// revision and its write (409), or a delete met no live document; the history continues without it
			r.Add("continuous_local_writes_refused", 1)
		}
	}
	if judge(len(c.Ops) - 1) {
		a := c06Read(w.active, docID)
		kind := "live"
		if a.Deleted {
			kind = "tombstone"
		}
		if !a.Exists {
			kind = "absent"
		}
		r.Distinct("outcomes", "continuous/"+kind)
	}
	return true
}

func TestVerifC06Continuous(t *testing.T) {
	r := vreport.Begin("C06")
	defer r.Finish(t)
	r.Assume("the replication stays connected; which of two writes not separated by a sync the other peer has already received is left to the Go runtime (met as it happens, not enumerated); the convergence wait is a wait on state with a 40 s horizon and repeated marker rounds, not a fixed delay")
	r.Rule("part d: every history of up to D steps over {editA, editP, delA, delP, sync} (at least one write, no two consecutive syncs, final sync implied) on its own document x protocol {v3, v4}, executed while one continuous push-and-pull replication is running between the peers; at every sync and at the end both peers must come to hold the same current revision, body and tombstone state")
	var rc c06Case
	run := func(t *testing.T, proto string, cases []c06Case) {
		peers := c06Peers(t, proto, false)
		w := &c06World{t: t, active: peers.ActiveRT, passive: peers.PassiveRT, url: peers.PassiveDBURL}
		coll, cctx := w.active.GetSingleTestDatabaseCollectionWithUser()
		if _, err := coll.UpdateSyncFun(cctx, c06AcceptingSyncFn); err != nil {
			t.Fatalf("sync function: %v", err)
		}
		cfg := &db.ReplicationCfg{ReplicationConfig: db.ReplicationConfig{
			ID:                     "rep-continuous",
			Direction:              db.ActiveReplicatorTypePushAndPull,
			Remote:                 w.url,
			Continuous:             true,
			ConflictResolutionType: db.ConflictResolverDefault,
			CollectionsEnabled:     base.TestsUseNamedCollections(),
			InitialState:           db.ReplicationStateStopped,
		}}
		ar, err := w.active.GetDatabase().SGReplicateMgr.InitializeReplication(cfg)
		if err != nil {
			t.Fatalf("initialize replication: %v", err)
		}
		if err := ar.Start(w.active.Context()); err != nil {
			t.Fatalf("start replication: %v", err)
		}
		defer func() { _ = ar.Stop() }()
		cont := &c06Cont{w: w}
		if !cont.barrier(30 * time.Second) {
			t.Fatalf("the continuous replication did not carry the first markers within 30 s")
		}
		for i, c := range cases {
			if r.Expired() {
				return
			}
			if c06ContHistory(t, r, c, cont, fmt.Sprintf("c%d", i+1)) {
				r.Add("evaluations", 1)
				r.Add("distinct_nontrivial", 1)
				if i%37 == 0 {
					r.Sample(map[string]any{"case": c.String() + " (continuous push-and-pull running)"})
				}
			}
		}
	}
	if r.Replaying(&rc) {
		t.Run("replay", func(t *testing.T) { run(t, rc.Protocol, []c06Case{rc}) })
		return
	}
	D := 3
	if r.Thorough() {
		D = 4
	}
	r.Note("continuous_max_depth", D)
	groups := map[string][]c06Case{}
	idx := 0
	var rec func(h []string, writes int)
	rec = func(h []string, writes int) {
		if writes > 0 && h[len(h)-1] != "sync" {
			for _, proto := range []string{"v3", "v4"} {
				idx++
				if r.Mine(idx) {
					groups[proto] = append(groups[proto], c06Case{Ops: append([]string{}, h...), Protocol: proto, Resolver: "default"})
				}
			}
		}
		if len(h) == D {
			return
		}
		for _, op := range c06ContAlphabet {
			if op == "sync" && (len(h) == 0 || h[len(h)-1] == "sync") {
				continue
			}
			w := writes
			if op != "sync" {
				w++
			}
			rec(append(append([]string{}, h...), op), w)
		}
	}
	rec(nil, 0)
	for _, proto := range []string{"v3", "v4"} {
		cases := groups[proto]
		if len(cases) == 0 || r.Expired() {
			continue
		}
		t.Run(proto, func(t *testing.T) { run(t, proto, cases) })
	}
	if r.Expired() {
		r.Cap("time budget reached before all continuous histories were explored")
	}
}
