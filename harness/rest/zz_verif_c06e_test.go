//go:build verif

package rest

import (
	"errors"
	"fmt"
	"strings"
	"sync"
	"testing"

	"github.com/couchbase/sync_gateway/base"
	"github.com/couchbase/sync_gateway/verifshim/vreport"
)

// C06, part b — one departure from the default environment *inside* a replication run.
//
// The main part interleaves local writes with replication at operation granularity. Here the interleaving point moves
// inside one run, at the granularity of the storage calls the run makes for the document: both peers sit on buckets
// whose document reads (GetWithXattrs) and update callbacks (WriteUpdateWithXattrs, after the callback computed the
// write and before the CAS write) pass through a seam. A case fixes a prefix history, the direction of the run, the
// peer and seam, the index K of the call, and what happens there: a local edit or delete on that peer (so the write
// in flight loses its CAS race, or the revision about to be sent / compared is no longer current) or, for reads, a
// transient storage error. For every (prefix, direction, protocol, peer, seam, action) all K = 1, 2, ... are run until
// the run makes fewer than K such calls. Afterwards the per-direction replications are re-run (from their
// checkpoints) and then push-and-pull until nothing moves, and the peers must agree as in the main part.

type c06Env struct {
	Side string `json:"side"` // "A" active peer, "P" passive peer
	Seam string `json:"seam"` // "read" | "update"
	K    int    `json:"k"`    // 1-based index of the call for the document on that peer during the run
	Act  string `json:"act"`  // "fault" (reads only) | "edit" | "del"
}

func (e *c06Env) String() string {
	return fmt.Sprintf("%s at the %s peer's %s call #%d for the document", map[string]string{"fault": "a transient storage error", "edit": "a local edit", "del": "a local delete"}[e.Act], map[string]string{"A": "active", "P": "passive"}[e.Side], e.Seam, e.K)
}

func (e *c06Env) tag() string { return fmt.Sprintf("%s-%s-%s", e.Act, e.Side, e.Seam) }

type c06HookT struct {
	mu     sync.Mutex
	w      *c06World
	env    *c06Env
	counts map[string]int
	fired  bool
	noop   bool // the action could not be performed (e.g. delete of a document that is not live there)
}

var c06Hook = &c06HookT{}

func (h *c06HookT) arm(w *c06World, e *c06Env) {
	h.mu.Lock()
	defer h.mu.Unlock()
	h.w, h.env, h.counts, h.fired, h.noop = w, e, map[string]int{}, false, false
}

// disarm ends the deviated run and reports whether the departure took place
func (h *c06HookT) disarm() (fired, noop bool) {
	h.mu.Lock()
	defer h.mu.Unlock()
	h.w, h.env = nil, nil
	return h.fired, h.noop
}

// at is called by the seam of peer side for every read / update call; it returns the storage error to answer with
func (h *c06HookT) at(side, seam, key string) error {
	h.mu.Lock()
	if h.env == nil || h.w == nil || key != h.w.doc {
		h.mu.Unlock()
		return nil
	}
	h.counts[side+seam]++
	if h.fired || h.env.Side != side || h.env.Seam != seam || h.counts[side+seam] != h.env.K {
		h.mu.Unlock()
		return nil
	}
	h.fired = true
	w, act := h.w, h.env.Act
	h.mu.Unlock()
	rt := w.active
	if side == "P" {
		rt = w.passive
	}
	switch act {
	case "fault":
		return errors.New("verif: injected transient storage error")
	case "edit", "del":
		// (runs on a replication goroutine: must not fail the test from here)
		if !w.tryWrite(rt, side, act == "del") {
			h.mu.Lock()
			h.noop = true
			h.mu.Unlock()
		}
	}
	return nil
}

// tryWrite is a local edit or delete that reports, instead of failing the test, when it could not be made
func (w *c06World) tryWrite(rt *RestTester, side string, del bool) bool {
	st := c06Read(rt, w.doc)
	url := "/{{.keyspace}}/" + w.doc
	if st.Exists {
		url += "?rev=" + st.RevTree
	}
	if del {
		if !st.Exists || st.Deleted {
			return false
		}
		return rt.SendAdminRequest("DELETE", url, "").Code == 200
	}
	w.n++
	code := rt.SendAdminRequest("PUT", url, fmt.Sprintf(`{"by":"%s","n":%d,"channels":["alice"]}`, side, w.n)).Code
	return code == 201 || code == 200
}

func (h *c06HookT) config(side string) base.LeakyBucketConfig {
	return base.LeakyBucketConfig{
		IgnoreClose:          true,
		GetWithXattrCallback: func(key string) error { return h.at(side, "read", key) },
		UpdateCallback:       func(key string) { _ = h.at(side, "update", key) },
	}
}

// prefixes that set up the document states a run can meet: new document, plain update, tombstone, resurrection, and
// conflicts of each shape (edit/edit with either side later, edit/delete either way)
var c06EnvPrefixes = [][]string{
	{"editP"},
	{"editA"},
	{"editP", "pushpull", "editP"},
	{"editA", "pushpull", "editA"},
	{"editP", "pushpull", "editP", "editA"},
	{"editP", "pushpull", "editA", "editP"},
	{"editP", "pushpull", "delP"},
	{"editP", "pushpull", "delA"},
	{"editP", "pushpull", "editA", "delP"},
	{"editP", "pushpull", "editP", "delA"},
	{"editP", "pushpull", "delP", "editP"},
	{"editP", "pushpull", "delP", "pushpull", "editA"},
}

func TestVerifC06Env(t *testing.T) {
	r := vreport.Begin("C06")
	defer r.Finish(t)
	r.Assume("one departure per run; the seam sees the document's GetWithXattrs reads and WriteUpdateWithXattrs callbacks, not reads made inside the storage layer's own update loop; the replicating-client (Couchbase Lite) side of the statement is represented by the passive peer only")
	r.Rule("part b: (prefix history from a fixed list of document states: new, updated, tombstoned, resurrected, conflicting edit/edit and edit/delete either way; thorough: also every history up to depth 3 over {editA, editP, delA, delP, pushpull}) x run {pull, push, pushpull} x protocol {v3, v4} x one departure inside that run: at call #K of {the document's reads, the document's update callbacks} on {active, passive} peer, {a local edit, a local delete on that peer; for reads also a transient storage error}; for each tuple every K = 1, 2, ... until the run makes fewer than K such calls; then per-direction catch-up from the persisted checkpoints, push-and-pull until quiet, and the convergence oracle of the main part")
	var rc c06Case
	if r.Replaying(&rc) {
		t.Run("replay", func(t *testing.T) {
			c06History(t, r, rc, c06Peers(t, rc.Protocol, rc.Env != nil), "d1")
		})
		return
	}
	dirs := []string{"pull", "push", "pushpull"}
	acts := map[string][]string{"read": {"fault", "edit", "del"}, "update": {"edit", "del"}}
	prefixes := c06EnvPrefixes
	if r.Thorough() {
		// every prefix up to depth 3 over local writes and full synchronisations as well
		seen := map[string]bool{}
		for _, p := range prefixes {
			seen[strings.Join(p, ",")] = true
		}
		var rec func(h []string, writes int)
		rec = func(h []string, writes int) {
			if writes > 0 && !strings.HasPrefix(h[len(h)-1], "push") && !seen[strings.Join(h, ",")] {
				seen[strings.Join(h, ",")] = true
				prefixes = append(prefixes, append([]string{}, h...))
			}
			if len(h) == 3 {
				return
			}
			for _, op := range []string{"editA", "editP", "delA", "delP", "pushpull"} {
				if (strings.HasPrefix(op, "del") || op == "pushpull") && writes == 0 {
					continue
				}
				w := writes
				if strings.HasPrefix(op, "edit") {
					w++
				}
				rec(append(h, op), w)
			}
		}
		rec(nil, 0)
	}
	type tuple struct {
		prefix []string
		dir    string
		proto  string
		env    c06Env
	}
	groups := map[string][]tuple{}
	idx := 0
	for _, pre := range prefixes {
		for _, dir := range dirs {
			for _, side := range []string{"A", "P"} {
				for _, seam := range []string{"read", "update"} {
					for _, act := range acts[seam] {
						for _, proto := range []string{"v3", "v4"} {
							idx++
							if !r.Mine(idx) {
								continue
							}
							groups[proto] = append(groups[proto], tuple{pre, dir, proto, c06Env{Side: side, Seam: seam, Act: act}})
						}
					}
				}
			}
		}
	}
	n := 0
	maxK := 0
	for _, proto := range []string{"v3", "v4"} {
		tuples := groups[proto]
		for lo := 0; lo < len(tuples); lo += 12 {
			hi := min(lo+12, len(tuples))
			if r.Expired() {
				break
			}
			t.Run(fmt.Sprintf("%s-%d", proto, lo), func(t *testing.T) {
				peers := c06Peers(t, proto, true)
				for _, tu := range tuples[lo:hi] {
					for k := 1; k <= 12; k++ {
						if r.Expired() {
							return
						}
						env := tu.env
						env.K = k
						c := c06Case{Ops: append(append([]string{}, tu.prefix...), tu.dir+"!"), Protocol: proto, Resolver: "default", Env: &env}
						n++
						if !c06History(t, r, c, peers, fmt.Sprintf("e%d", n)) {
							r.Add("pruned_beyond_last_call", 1)
							break
						}
						r.Add("evaluations", 1)
						r.Add("distinct_nontrivial", 1)
						r.Add("departures/"+env.tag(), 1)
						if k > maxK {
							maxK = k
						}
						if n%17 == 1 {
							r.Sample(map[string]any{"case": c.String()})
						}
					}
				}
			})
		}
	}
	r.Max("max_call_index_with_a_departure", int64(maxK))
	if r.Expired() {
		r.Cap("time budget reached before all departures were explored")
	}
}
