//go:build verif

package rest

import (
	"fmt"
	"strings"
	"sync"
	"testing"

	"github.com/couchbase/sync_gateway/base"
	"github.com/couchbase/sync_gateway/verifshim/vreport"
	"github.com/couchbase/sync_gateway/verifshim/vstore"
)

// C06 part c / C17 part b — one storage fault inside a replication run, then restart.
//
// Both peers sit on buckets behind the stepping store seam (vstore). During the run marked "!" exactly one storage
// operation on one peer, among those that touch the selected keys, is answered with a fault: a storage error or a
// timeout with the operation not applied, or a timeout reported although the operation was applied, and for
// compare-and-swap writes a CAS mismatch. Selected keys are the replicated document (TestVerifC06Fault, reported
// under C06) or the replication's checkpoint documents on either peer (TestVerifC17Repl, reported under C17). For
// every (prefix history, run direction, protocol, peer, fault mode) every operation index K = 0, 1, ... is taken until
// the run performs fewer selected operations. Afterwards storage is healthy again: the per-direction replications are
// re-run - restarting from whatever checkpoint the faulty run left behind - until they move nothing, then
// push-and-pull until quiet, and the peers must agree on the document (a checkpoint that ran ahead of the revision
// the fault kept from being processed shows as a revision that never arrives).

type c06Fault struct {
	Side string `json:"side"` // "A" active peer, "P" passive peer
	Keys string `json:"keys"` // "doc" | "checkpoint"
	K    int    `json:"k"`    // 0-based index among the selected storage operations of that peer during the run
	Mode int    `json:"mode"` // vstore.Injection
}

func (f *c06Fault) String() string {
	return fmt.Sprintf("storage fault %q at the %s peer's operation #%d on the %s", vstore.Injection(f.Mode).String(), map[string]string{"A": "active", "P": "passive"}[f.Side], f.K, map[string]string{"doc": "document", "checkpoint": "checkpoint documents", "att": "attachment bodies"}[f.Keys])
}

func (f *c06Fault) tag() string {
	return fmt.Sprintf("fault-%s-%s-%s", vstore.Injection(f.Mode).String(), f.Side, f.Keys)
}

var (
	c06VBs     = map[*RestTester]*vstore.Bucket{}
	c06VBsMu   sync.Mutex
	c06FaultM  sync.Mutex
	c06Fired   bool
	c06Reached bool
	c06FiredOp string
)

// c06ReachedLast reports whether the last faulty run performed an operation with the armed index at all
func c06ReachedLast() bool {
	c06FaultM.Lock()
	defer c06FaultM.Unlock()
	return c06Reached
}

func c06VB(rt *RestTester) *vstore.Bucket {
	c06VBsMu.Lock()
	defer c06VBsMu.Unlock()
	return c06VBs[rt]
}

func c06ArmFault(w *c06World, f *c06Fault) {
	rt := w.active
	if f.Side == "P" {
		rt = w.passive
	}
	vb := c06VB(rt)
	if vb == nil {
		w.t.Fatalf("peer %s is not behind the store seam", f.Side)
	}
	doc := w.doc
	c06FaultM.Lock()
	c06Fired, c06Reached, c06FiredOp = false, false, ""
	c06FaultM.Unlock()
	H := vb.H
	H.Reset()
	H.Select = func(op, key string) bool {
		switch f.Keys {
		case "doc":
			return key == doc
		case "att":
			return strings.HasPrefix(key, "_sync:att")
		}
		return strings.Contains(key, "checkpoint/")
	}
	H.Plan = func(seq int, op, key string, write bool) vstore.Injection {
		if seq != f.K {
			return vstore.None
		}
		inj := vstore.Injection(f.Mode)
		c06FaultM.Lock()
		c06Reached = true
		c06FaultM.Unlock()
		if inj == vstore.CasMismatch && (!write || !c06CasOps[op]) {
			return vstore.None // a CAS mismatch is only an answer of compare-and-swap operations
		}
		c06FaultM.Lock()
		c06Fired, c06FiredOp = true, op
		c06FaultM.Unlock()
		return inj
	}
	H.Enabled = true
}

func c06DisarmFault(w *c06World, r *vreport.Report) bool {
	for _, rt := range []*RestTester{w.active, w.passive} {
		if vb := c06VB(rt); vb != nil {
			vb.H.Enabled = false
			vb.H.Plan, vb.H.Select = nil, nil
		}
	}
	c06FaultM.Lock()
	defer c06FaultM.Unlock()
	if c06Fired {
		r.Distinct("faulted_operations", c06FiredOp)
	}
	return c06Fired
}

// c06SeamPeers builds two peers whose buckets are behind vstore (hooks off until a fault is armed)
func c06SeamPeers(t *testing.T, protocol string) TestISGRPeers {
	ctx := base.TestCtx(t)
	ab, pb := base.GetTestBucket(t), base.GetTestBucket(t)
	avb, pvb := vstore.Wrap(ab.Bucket), vstore.Wrap(pb.Bucket)
	ab.Bucket, pb.Bucket = avb, pvb
	t.Cleanup(func() { ab.Close(ctx); pb.Close(ctx) })
	peers := c06PeersWith(t, protocol, ab.NoCloseClone(), pb.NoCloseClone())
	c06VBsMu.Lock()
	c06VBs[peers.ActiveRT], c06VBs[peers.PassiveRT] = avb, pvb
	c06VBsMu.Unlock()
	return peers
}

var c06CasOps = map[string]bool{"WriteCas": true, "Remove": true, "WriteWithXattrs": true, "WriteTombstoneWithXattrs": true,
	"Update.write": true, "WriteUpdateWithXattrs.write": true, "UpdateXattrs": true, "SubdocInsert": true, "WriteSubDoc": true, "RemoveXattrs": true}

var c06FaultModes = []vstore.Injection{vstore.ErrBefore, vstore.TimeoutAfter, vstore.CasMismatch}

func c06FaultPart(t *testing.T, r *vreport.Report, keys string, prefixes [][]string, dirs []string) {
	var rc c06Case
	if r.Replaying(&rc) {
		t.Run("replay", func(t *testing.T) {
			c06History(t, r, rc, c06SeamPeers(t, rc.Protocol), "d1")
		})
		return
	}
	type tuple struct {
		prefix []string
		dir    string
		proto  string
		f      c06Fault
	}
	groups := map[string][]tuple{}
	idx := 0
	for _, pre := range prefixes {
		for _, dir := range dirs {
			for _, side := range []string{"A", "P"} {
				for _, mode := range c06FaultModes {
					for _, proto := range []string{"v3", "v4"} {
						idx++
						if !r.Mine(idx) {
							continue
						}
						groups[proto] = append(groups[proto], tuple{pre, dir, proto, c06Fault{Side: side, Keys: keys, Mode: int(mode)}})
					}
				}
			}
		}
	}
	n := 0
	maxK := 0
	for _, proto := range []string{"v3", "v4"} {
		tuples := groups[proto]
		for lo := 0; lo < len(tuples); lo += 10 {
			hi := min(lo+10, len(tuples))
			if r.Expired() {
				break
			}
			t.Run(fmt.Sprintf("%s-%d", proto, lo), func(t *testing.T) {
				peers := c06SeamPeers(t, proto)
				for _, tu := range tuples[lo:hi] {
					for k := 0; k < 40; k++ {
						if r.Expired() {
							return
						}
						f := tu.f
						f.K = k
						c := c06Case{Ops: append(append([]string{}, tu.prefix...), tu.dir+"!"), Protocol: proto, Resolver: "default", Fault: &f}
						n++
						if !c06History(t, r, c, peers, fmt.Sprintf("f%d", n)) {
							if c06ReachedLast() {
								continue // the operation at this index is not a compare-and-swap write: a CAS mismatch does not apply
							}
							r.Add("pruned_beyond_last_operation", 1)
							break
						}
						r.Add("evaluations", 1)
						r.Add("distinct_nontrivial", 1)
						r.Add("faults/"+f.tag(), 1)
						if k > maxK {
							maxK = k
						}
						if n%23 == 1 {
							r.Sample(map[string]any{"case": c.String()})
						}
					}
				}
			})
		}
	}
	r.Max("max_operation_index_faulted", int64(maxK))
	if r.Expired() {
		r.Cap("time budget reached before all fault placements were explored")
	}
}

var c06FaultPrefixes = [][]string{
	{"editP"},
	{"editA"},
	{"editP", "pushpull", "editP"},
	{"editA", "pushpull", "editA"},
	{"editP", "pushpull", "delP"},
	{"editA", "pushpull", "delA"},
	{"editP", "pushpull", "editP", "editA"},
	{"editP", "pushpull", "editA", "editP"},
	{"editP", "pushpull", "editA", "delP"},
	{"editP", "pushpull", "delP", "editP"},
}

func TestVerifC06Fault(t *testing.T) {
	r := vreport.Begin("C06")
	defer r.Finish(t)
	r.Assume("one fault per run; the seam sees every key-value, xattr and sub-document operation on the document's key, with update loops split into their read and their compare-and-swap write; storage is healthy again for the catch-up runs; the replicating-client (Couchbase Lite) side of the statement is represented by the passive peer only")
	r.Rule("part c: (prefix history from a list of document states: new, updated, tombstoned, resurrected, conflicting edit/edit and edit/delete) x run {pull, push, pushpull} x protocol {v3, v4} x peer x fault mode {storage error not applied, timeout reported but applied, CAS mismatch on compare-and-swap writes} x every index K of the peer's storage operations on the document during that run; then per-direction catch-up from the persisted checkpoints, push-and-pull until quiet, and the convergence oracle of the main part")
	prefixes := c06FaultPrefixes[:6]
	dirs := []string{"pull", "push"}
	if r.Thorough() {
		prefixes = c06FaultPrefixes
		dirs = append(dirs, "pushpull")
	}
	c06FaultPart(t, r, "doc", prefixes, dirs)
	// documents with attachments (one rewritten by every edit, one kept as a stub): faults on the document and on the
	// attachment bodies; the peers must end with the same attachments, readable with the advertised digest
	attPrefixes := [][]string{{"editPatt"}, {"editAatt"}, {"editPatt", "pushpull", "editPatt"}, {"editAatt", "pushpull", "editAatt"}}
	c06FaultPart(t, r, "att", attPrefixes, dirs)
	c06FaultPart(t, r, "doc", attPrefixes[2:], dirs)
}

func TestVerifC17Repl(t *testing.T) {
	c06Prop = "C17"
	r := vreport.Begin("C17")
	defer r.Finish(t)
	r.Assume("one fault per run; the seam sees every key-value operation on the checkpoint documents of both peers (the active peer's local checkpoint and the checkpoint it stores on the passive peer); storage is healthy again for the restarted runs")
	r.Rule("part b (end to end): (prefix history: new, updated, tombstoned document on the sending side, and a conflicting edit) x run {pull, push} x protocol {v3, v4} x peer x fault mode {storage error not applied, timeout reported but applied, CAS mismatch on compare-and-swap writes} x every index K of the peer's storage operations on checkpoint documents during that run; then the same replications are restarted from whatever checkpoint the faulty run left behind until they move nothing, push-and-pull until quiet, and both peers must hold the same revision (a checkpoint that ran ahead shows as a revision that never arrives)")
	prefixes := [][]string{{"editP"}, {"editA"}, {"editP", "pushpull", "editP"}, {"editA", "pushpull", "editA"}, {"editP", "pushpull", "delP"}, {"editP", "pushpull", "editA", "editP"}}
	dirs := []string{"pull", "push"}
	if r.Thorough() {
		dirs = append(dirs, "pushpull")
	}
	c06FaultPart(t, r, "checkpoint", prefixes, dirs)
}
