//go:build verif

package rest

import (
	"github.com/couchbase/go-blip"
	"bytes"
	"encoding/json"
	"fmt"
	"io"
	"math/big"
	"mime"
	"mime/multipart"
	"net/url"
	"sort"
	"strings"
	"testing"

	"github.com/couchbase/sync_gateway/verifshim/vreport"
)

// C19 — document bodies come back exactly as written on every path.
// E3: JSON objects generated exhaustively from a small grammar (atoms incl. big integers, floats, escapes,
// Unicode, empty containers; keys incl. empty, non-ASCII and underscore-prefixed ones; nesting; whitespace and
// key-order variants) x write path x read path. Values are compared as JSON values with numbers compared by
// exact mathematical value.

var c19Atoms = []string{`0`, `-0`, `1`, `1.0`, `1e2`, `1.5`, `-2.5e-3`, `9007199254740993`, `18446744073709551616`, `123456789012345678901234567890`, `0.1000000000000000055511151231257827`,
	`""`, `"é"`, `"\u0000"`, `"😀"`, `"\"\\\/"`, `"😀"`, `"a\tb\nc"`, `true`, `false`, `null`, `{}`, `[]`}

var c19Keys = []string{`a`, ``, `é`, `_x`, `__`, `a.b`, `A`, `$ref`, `😀`}

type c19Case struct {
	Body  string `json:"body"`
	Write string `json:"write"`
	// Reserved: the body carries a property a client must not set; the write must be refused and store nothing
	Reserved bool `json:"reserved,omitempty"`
}

func (e *c19Env) checkReserved(r *vreport.Report, c c19Case) {
	e.n++
	id := fmt.Sprintf("c19r_%d_%d", r.Shard, e.n)
	code, msg := e.write(c.Write, id, c.Body)
	get := e.rt.SendAdminRequest("GET", "/{{.keyspace}}/"+id, "")
	if code < 400 || code >= 500 {
		r.Violate("C19/reserved-property-not-rejected/"+c.Write, fmt.Sprintf("%s of %q -> %d %s (expected a 4xx rejection); GET -> %d %s", c.Write, c.Body, code, msg, get.Code, get.Body.String()), c)
	} else if get.Code == 200 {
		r.Violate("C19/reserved-property-stored/"+c.Write, fmt.Sprintf("%s of %q was rejected but something is stored: %s", c.Write, c.Body, get.Body.String()), c)
	}
	r.Add("evaluations", 1)
	r.Add("reserved_property_cases", 1)
}

// generate the document bodies (JSON object texts)
func c19Bodies(thorough bool) []string {
	var out []string
	q := func(k string) string { b, _ := json.Marshal(k); return string(b) }
	for _, a := range c19Atoms {
		out = append(out, fmt.Sprintf(`{"v":%s}`, a))
		out = append(out, fmt.Sprintf(`{"o":{"i":%s}}`, a))
		out = append(out, fmt.Sprintf(`{"l":[%s]}`, a))
	}
	for _, k := range c19Keys {
		out = append(out, fmt.Sprintf(`{%s:1}`, q(k)))
		out = append(out, fmt.Sprintf(`{"o":{%s:"x"}}`, q(k)))
	}
	// pairs of atoms in an array and as two properties (order variants)
	pairAtoms := c19Atoms
	if !thorough {
		pairAtoms = []string{`0`, `1.0`, `9007199254740993`, `"é"`, `null`, `{}`, `[]`, `"\u0000"`}
	}
	for _, a := range pairAtoms {
		for _, b := range pairAtoms {
			out = append(out, fmt.Sprintf(`{"l":[%s,%s]}`, a, b))
			out = append(out, fmt.Sprintf(`{"b":%s,"a":%s}`, a, b))
		}
	}
	// whitespace, key order, depth
	out = append(out, "{ \"b\" : 1 ,\n\t\"a\" : [ 1 , 2 ] }", `{"z":1,"y":2,"x":3,"a":{"z":1,"a":2}}`, `{"d":{"d":{"d":{"d":{"d":{"d":[[[[[[1]]]]]]}}}}}}`,
		`{}`, `{"a":[]}`, `{"a":[{}]}`, `{"a":[[],{},[{}]]}`, `{"channels":["x"],"v":1}`, `{"type":"t","exp":1,"deleted":true,"id":"i","rev":"r","attachments":{}}`)
	if thorough {
		for _, k1 := range c19Keys {
			for _, k2 := range c19Keys {
				if k1 != k2 {
					out = append(out, fmt.Sprintf(`{%s:{%s:[1.0,"é"]}}`, q(k1), q(k2)))
				}
			}
		}
		for _, a := range c19Atoms {
			for _, b := range c19Atoms {
				out = append(out, fmt.Sprintf(`{"o":{"p":%s,"q":[%s]}}`, a, b))
			}
		}
	}
	return out
}

// ---- JSON value comparison with exact numbers

func c19Parse(b []byte) (any, error) {
	d := json.NewDecoder(bytes.NewReader(b))
	d.UseNumber()
	var v any
	if err := d.Decode(&v); err != nil {
		return nil, err
	}
	return v, nil
}

func c19Equal(a, b any) bool {
	switch x := a.(type) {
	case json.Number:
		y, ok := b.(json.Number)
		if !ok {
			return false
		}
		rx, ok1 := new(big.Rat).SetString(string(x))
		ry, ok2 := new(big.Rat).SetString(string(y))
		return ok1 && ok2 && rx.Cmp(ry) == 0
	case map[string]any:
		y, ok := b.(map[string]any)
		if !ok || len(x) != len(y) {
			return false
		}
		for k, v := range x {
			w, ok := y[k]
			if !ok || !c19Equal(v, w) {
				return false
			}
		}
		return true
	case []any:
		y, ok := b.([]any)
		if !ok || len(x) != len(y) {
			return false
		}
		for i := range x {
			if !c19Equal(x[i], y[i]) {
				return false
			}
		}
		return true
	default:
		return a == b
	}
}

var c19Added = []string{"_xattrs", "_id", "_rev", "_cv", "_revisions", "_attachments", "_exp", "_deleted", "_removed", "_sync", "_meta", "_vv", "_mou", "_globalSync"}

func c19Strip(v any) any {
	m, ok := v.(map[string]any)
	if !ok {
		return v
	}
	out := map[string]any{}
	for k, x := range m {
		out[k] = x
	}
	for _, k := range c19Added {
		delete(out, k)
	}
	return out
}

type c19Env struct {
	rt *RestTester
	n  int
	bt *BlipTester
}

// blipPush sends one rev message (a replication push of a first revision) and returns an HTTP-like status
func (e *c19Env) blipPush(id, body string) (int, string) {
	if e.bt == nil {
		e.rt.CreateUser("c19blip", []string{"*"})
		e.bt = NewBlipTesterFromSpecWithRT(e.rt, &BlipTesterSpec{connectingUsername: "c19blip"})
	}
	req := e.bt.newRevMessage(id, "1-abc", []byte(body), blip.Properties{})
	e.bt.Send(req)
	resp := req.Response()
	rb, _ := resp.Body()
	if ec := resp.Properties["Error-Code"]; ec != "" {
		code := 400
		_, _ = fmt.Sscanf(ec, "%d", &code)
		return code, string(rb)
	}
	return 201, string(rb)
}

func (e *c19Env) write(path, id, body string) (int, string) {
	rt := e.rt
	switch path {
	case "PUT":
		resp := rt.SendAdminRequest("PUT", "/{{.keyspace}}/"+id, body)
		return resp.Code, resp.Body.String()
	case "POST":
		// server-side create with the id inside the body
		withID := `{"_id":` + fmt.Sprintf("%q", id) + "," + strings.TrimPrefix(strings.TrimSpace(body), "{")
		if strings.TrimSpace(body) == "{}" {
			withID = `{"_id":` + fmt.Sprintf("%q", id) + `}`
		}
		resp := rt.SendAdminRequest("POST", "/{{.keyspace}}/", withID)
		return resp.Code, resp.Body.String()
	case "BULK":
		inner := `{"_id":` + fmt.Sprintf("%q", id) + "," + strings.TrimPrefix(strings.TrimSpace(body), "{")
		if strings.TrimSpace(body) == "{}" {
			inner = `{"_id":` + fmt.Sprintf("%q", id) + `}`
		}
		resp := rt.SendAdminRequest("POST", "/{{.keyspace}}/_bulk_docs", `{"docs":[`+inner+`]}`)
		code := resp.Code
		if code == 201 && strings.Contains(resp.Body.String(), `"error"`) {
			code = 400
		}
		return code, resp.Body.String()
	case "BLIP":
		return e.blipPush(id, body)
	case "IMPORT":
		if err := rt.GetSingleDataStore().SetRaw(rt.Context(), id, 0, nil, []byte(body)); err != nil {
			return 500, err.Error()
		}
		return 201, ""
	}
	return 0, ""
}

// read returns the JSON document text obtained through each read path
func (e *c19Env) read(id string) map[string]string {
	rt := e.rt
	out := map[string]string{}
	get := rt.SendAdminRequest("GET", "/{{.keyspace}}/"+id, "")
	out["GET"] = fmt.Sprintf("%d %s", get.Code, get.Body.String())
	rev := ""
	if get.Code == 200 {
		var m map[string]any
		if json.Unmarshal(get.Body.Bytes(), &m) == nil {
			rev, _ = m["_rev"].(string)
		}
	}
	if rev != "" {
		r2 := rt.SendAdminRequest("GET", "/{{.keyspace}}/"+id+"?rev="+rev+"&revs=true", "")
		out["GET?rev"] = fmt.Sprintf("%d %s", r2.Code, r2.Body.String())
		or, _ := json.Marshal([]string{rev})
		r3 := rt.SendAdminRequestWithHeaders("GET", "/{{.keyspace}}/"+id+"?open_revs="+url.QueryEscape(string(or)), "", map[string]string{"Accept": "application/json"})
		if r3.Code == 200 {
			var arr []map[string]json.RawMessage
			if json.Unmarshal(r3.Body.Bytes(), &arr) == nil && len(arr) == 1 && arr[0]["ok"] != nil {
				out["GET?open_revs"] = "200 " + string(arr[0]["ok"])
			} else {
				out["GET?open_revs"] = fmt.Sprintf("%d UNPARSED %s", r3.Code, r3.Body.String())
			}
		}
	}
	keys, _ := json.Marshal([]string{id})
	ad := rt.SendAdminRequest("GET", "/{{.keyspace}}/_all_docs?include_docs=true&keys="+url.QueryEscape(string(keys)), "")
	if ad.Code == 200 {
		var res struct {
			Rows []struct {
				Doc json.RawMessage `json:"doc"`
			} `json:"rows"`
		}
		d := json.NewDecoder(bytes.NewReader(ad.Body.Bytes()))
		if d.Decode(&res) == nil && len(res.Rows) == 1 && res.Rows[0].Doc != nil {
			out["_all_docs"] = "200 " + string(res.Rows[0].Doc)
		} else {
			out["_all_docs"] = "200 UNPARSED " + ad.Body.String()
		}
	}
	ch := rt.SendAdminRequest("POST", "/{{.keyspace}}/_changes", `{"include_docs":true,"filter":"_doc_ids","doc_ids":[`+fmt.Sprintf("%q", id)+`]}`)
	if ch.Code == 200 {
		var res struct {
			Results []struct {
				Doc json.RawMessage `json:"doc"`
			} `json:"results"`
		}
		if json.Unmarshal(ch.Body.Bytes(), &res) == nil && len(res.Results) == 1 && res.Results[0].Doc != nil {
			out["_changes"] = "200 " + string(res.Results[0].Doc)
		} else {
			out["_changes"] = "200 UNPARSED " + ch.Body.String()
		}
	}
	bg := rt.SendAdminRequest("POST", "/{{.keyspace}}/_bulk_get", `{"docs":[{"id":`+fmt.Sprintf("%q", id)+`}]}`)
	if bg.Code == 200 {
		mt, params, err := mime.ParseMediaType(bg.Header().Get("Content-Type"))
		if err == nil && strings.HasPrefix(mt, "multipart/") {
			mr := multipart.NewReader(bytes.NewReader(bg.Body.Bytes()), params["boundary"])
			if part, err := mr.NextPart(); err == nil {
				b, _ := io.ReadAll(part)
				out["_bulk_get"] = "200 " + string(b)
			}
		}
	}
	raw := rt.SendAdminRequest("GET", "/{{.keyspace}}/_raw/"+id, "")
	out["_raw"] = fmt.Sprintf("%d %s", raw.Code, raw.Body.String())
	return out
}

func (e *c19Env) checkCase(r *vreport.Report, c c19Case) {
	e.n++
	id := fmt.Sprintf("c19_%d_%d", r.Shard, e.n)
	want, err := c19Parse([]byte(c.Body))
	if err != nil {
		return
	}
	code, msg := e.write(c.Write, id, c.Body)
	shape := c19Shape(c.Body)
	if code >= 500 {
		r.Violate("C19/write-server-error/"+c.Write+"/"+shape, fmt.Sprintf("%s of %s -> %d %s", c.Write, c.Body, code, msg), c)
		return
	}
	if code >= 400 {
		r.Add("rejected_writes", 1)
		r.Distinct("rejected_shapes", c.Write+"/"+shape)
		// rejected: nothing stored
		get := e.rt.SendAdminRequest("GET", "/{{.keyspace}}/"+id, "")
		if get.Code == 200 {
			r.Violate("C19/rejected-write-stored/"+c.Write+"/"+shape, fmt.Sprintf("%s of %s was rejected (%d %s) but the document exists: %s", c.Write, c.Body, code, msg, get.Body.String()), c)
		}
		return
	}
	r.Add("accepted_writes", 1)
	for path, res := range e.read(id) {
		r.Add("reads", 1)
		if !strings.HasPrefix(res, "200 ") {
			if path == "_raw" || path == "GET" {
				r.Violate("C19/read-failed/"+c.Write+"/"+path, fmt.Sprintf("after %s of %s, %s answers %s", c.Write, c.Body, path, res), c)
			}
			continue
		}
		text := strings.TrimPrefix(res, "200 ")
		got, err := c19Parse([]byte(text))
		if err != nil {
			r.Violate("C19/read-not-json/"+c.Write+"/"+path, fmt.Sprintf("after %s of %s, %s returned %s", c.Write, c.Body, path, text), c)
			continue
		}
		if !c19Equal(c19Strip(want), c19Strip(got)) {
			r.Violate("C19/body-changed/"+c.Write+"/"+path+"/"+shape, fmt.Sprintf("written %s via %s, read back via %s as %s", c.Body, c.Write, path, text), c)
		}
	}
}

// shape abstracts a body to the kind of value it exercises (for fingerprints)
func c19Shape(body string) string {
	switch {
	case strings.Contains(body, "18446744073709551616") || strings.Contains(body, "123456789012345678901234567890"):
		return "integer-beyond-64-bit"
	case strings.Contains(body, "9007199254740993"):
		return "integer-beyond-2^53"
	case strings.Contains(body, "0.1000000000000000055511151231257827"):
		return "long-decimal"
	case strings.Contains(body, `\u0000`):
		return "nul-in-string"
	case strings.Contains(body, `"_x"`) || strings.Contains(body, `"__"`):
		return "underscore-key"
	case strings.Contains(body, `"":`):
		return "empty-key"
	case strings.Contains(body, "1e2") || strings.Contains(body, "1.0") || strings.Contains(body, "-0") || strings.Contains(body, "e-3"):
		return "number-notation"
	}
	return "other"
}

func TestVerifC19(t *testing.T) {
	r := vreport.Begin("C19")
	defer r.Finish(t)
	r.Rule("JSON object bodies generated exhaustively from a grammar (23 atoms incl. -0, 1.0, 1e2, integers beyond 2^53 and 2^64, long decimals, empty / non-ASCII / NUL / surrogate-pair / escaped strings, booleans, null, empty containers; 9 keys incl. empty, non-ASCII, underscore-prefixed, dotted; one and two levels of nesting; arrays; pairs; whitespace and key-order variants) x write path {PUT, POST, _bulk_docs, raw bucket write + on-demand import, replication push (rev message)} x read path {GET, GET by rev with history, open_revs, _all_docs include_docs, _changes include_docs, _bulk_get, _raw}; plus client-forbidden reserved properties which must be rejected and not stored; non-trivial = distinct (body, write path)")
	r.Assume("the replication protocol's pull path and replication to a second peer are not enumerated in this tier (C06 transfers bodies between peers); values are compared as JSON values, numbers by exact mathematical value, after removing the documented properties the gateway adds")
	rt := NewRestTester(t, &RestTesterConfig{})
	defer rt.Close()
	e := &c19Env{rt: rt}
	var rc c19Case
	if r.Replaying(&rc) {
		if rc.Reserved {
			e.checkReserved(r, rc)
		} else {
			e.checkCase(r, rc)
		}
		return
	}
	bodies := c19Bodies(r.Thorough())
	r.Note("bodies", len(bodies))
	idx := 0
	for _, b := range bodies {
		for _, wp := range []string{"PUT", "POST", "BULK", "IMPORT", "BLIP"} {
			idx++
			if !r.Mine(idx) || r.Expired() {
				continue
			}
			c := c19Case{Body: b, Write: wp}
			e.checkCase(r, c)
			r.Add("evaluations", 1)
			r.Add("distinct_nontrivial", 1)
			if idx%211 == 0 {
				r.Sample(c)
			}
		}
	}
	// reserved properties a client must not set
	for i, b := range []string{`{"_purged":true}`, `{"_removed":true}`, `{"_sync":{"rev":"1-a"}}`, `{"_sync_x":1}`, `{"_sync_":{}}`, `{"v":1,"_purged":false}`} {
		for _, wp := range []string{"PUT", "POST", "BULK"} {
			if !r.Mine(i) {
				continue
			}
			e.checkReserved(r, c19Case{Body: b, Write: wp, Reserved: true})
		}
	}
	// properties a replication push must not carry, with every kind of whitespace between the key and the colon
	bi := 0
	for _, prop := range []string{"_id", "_rev", "_revisions", "_sync", "_purged", "_removed"} {
		for _, sep := range []string{"", " ", "\t", "\n", " \t\n "} {
			for _, val := range []string{`"x"`, `{}`} {
				bi++
				if !r.Mine(bi) {
					continue
				}
				e.checkReserved(r, c19Case{Body: `{"v":1,"` + prop + `"` + sep + `:` + val + `}`, Write: "BLIP", Reserved: true})
			}
		}
	}
	if e.bt != nil {
		e.bt.Close()
	}
	if r.Expired() {
		r.Cap("time budget reached")
	}
	_ = sort.Strings
}
