//go:build verif

package rest

import (
	"encoding/base64"
	"encoding/json"
	"fmt"
	"os"
	"sort"
	"strings"
	"testing"
	"time"

	"github.com/couchbase/sync_gateway/base"
	"github.com/couchbase/sync_gateway/db"
	"github.com/couchbase/sync_gateway/verifshim/vreport"
)

// C06 — replicating peers converge.
// E3: every history (up to depth D) over {edit / delete on the active peer, edit / delete on the passive peer, one-shot
// push, one-shot pull, one-shot push-and-pull} on one document, for both protocol generations and each resolver, on
// two real databases connected by the real inter-Sync-Gateway replicator over a real websocket. Every replication run
// of a direction reuses one replication id, so each later run restarts from the persisted checkpoint. After the
// history push-and-pull is run until a run transfers nothing; then both sides must agree on the document's current
// revision, body and tombstone state, and one more run must transfer no revisions.

// c06Prop is the property the running test reports under (the storage-fault part on checkpoint documents is C17's)
var c06Prop = "C06"

type c06Case struct {
	Ops      []string `json:"ops"`
	Protocol string   `json:"protocol"` // "v3" rev-tree, "v4" version vectors
	Resolver string   `json:"resolver"`
	// Env, when set, is the one departure from the default environment made during the replication run whose op is
	// marked with "!" (part TestVerifC06Env)
	Env *c06Env `json:"env,omitempty"`
	// Fault, when set, is the one storage fault injected during the run marked with "!" (parts TestVerifC06Fault,
	// TestVerifC17Repl)
	Fault *c06Fault `json:"fault,omitempty"`
}

func (c c06Case) String() string {
	s := fmt.Sprintf("protocol=%s resolver=%s history=[%s]", c.Protocol, c.Resolver, strings.Join(c.Ops, " "))
	if c.Env != nil {
		s += " during the run marked !: " + c.Env.String()
	}
	if c.Fault != nil {
		s += " during the run marked !: " + c.Fault.String()
	}
	return s
}

var c06Alphabet = []string{"push", "pull", "pushpull", "editA", "editP", "delA", "delP"}

// histories about a refused edit are enumerated separately (every replication run that meets a refused revision
// takes seconds): editPbad first, then up to D-1 steps from this alphabet
var c06RefusedAlphabet = []string{"pull", "push", "pushpull", "acceptA", "editP"}

// the active peer's sync function refuses documents marked bad until acceptA replaces it
const c06RejectingSyncFn = `function(doc) { channel(doc.channels); if (doc.bad) { throw({forbidden: "bad"}); } }`
const c06AcceptingSyncFn = `function(doc) { channel(doc.channels); }`

type c06State struct {
	Exists  bool
	Deleted bool
	RevTree string
	CV      string
	Body    string
	Leaves  string // sorted "revid[parent](deleted)" of every leaf of the revision tree
	Roots   int    // number of parentless revisions in the revision tree
	Atts    string // sorted "name=digest(readable|UNREADABLE)" of the current revision's attachments
}

func c06Read(rt *RestTester, docID string) c06State {
	coll, ctx := rt.GetSingleTestDatabaseCollection()
	doc, err := coll.GetDocument(ctx, docID, db.DocUnmarshalAll)
	if err != nil || doc == nil {
		return c06State{}
	}
	st := c06State{Exists: true, Deleted: doc.IsDeleted(), RevTree: doc.GetRevTreeID()}
	if doc.HLV != nil {
		st.CV = doc.HLV.GetCurrentVersionString()
	}
	var leaves []string
	for _, id := range doc.History.GetLeaves() {
		ri := doc.History[id]
		l := id + "<" + ri.Parent
		if ri.Deleted {
			l += "(deleted)"
		}
		leaves = append(leaves, l)
	}
	sort.Strings(leaves)
	st.Leaves = strings.Join(leaves, ",")
	for _, ri := range doc.History {
		if ri.Parent == "" {
			st.Roots++
		}
	}
	if !st.Deleted {
		body, _ := doc.GetDeepMutableBody()
		b, _ := json.Marshal(body)
		st.Body = string(b)
		var atts []string
		for name, meta := range doc.Attachments() {
			m, _ := meta.(map[string]any)
			digest, _ := m["digest"].(string)
			state := "readable"
			if resp := rt.SendAdminRequest("GET", "/{{.keyspace}}/"+docID+"/"+name, ""); resp.Code != 200 || db.Sha1DigestKey(resp.Body.Bytes()) != digest {
				state = "UNREADABLE"
			}
			atts = append(atts, name+"="+digest+"("+state+")")
		}
		sort.Strings(atts)
		st.Atts = strings.Join(atts, ",")
	}
	return st
}

type c06World struct {
	t       testing.TB
	c       c06Case
	doc     string
	active  *RestTester
	passive *RestTester
	url     string
	n       int
}

func (w *c06World) edit(rt *RestTester, side string) bool { return w.editBody(rt, side, false) }

func (w *c06World) editBody(rt *RestTester, side string, bad bool) bool {
	st := c06Read(rt, w.doc)
	w.n++
	body := fmt.Sprintf(`{"by":"%s","n":%d,"channels":["alice"]}`, side, w.n)
	if bad {
		body = fmt.Sprintf(`{"by":"%s","n":%d,"bad":true,"channels":["alice"]}`, side, w.n)
	}
	url := "/{{.keyspace}}/" + w.doc
	if st.Exists {
		url += "?rev=" + st.RevTree
	}
	resp := rt.SendAdminRequest("PUT", url, body)
	if resp.Code != 201 && resp.Code != 200 {
		w.t.Fatalf("edit on %s failed: %d %s (%s)", side, resp.Code, resp.Body.String(), w.c)
	}
	return true
}

// editAtt is an edit that (re)writes attachment "a" with content unique to this edit and keeps attachment "k" (written
// by the first such edit) as a stub
func (w *c06World) editAtt(rt *RestTester, side string) bool {
	st := c06Read(rt, w.doc)
	w.n++
	content := base64.StdEncoding.EncodeToString([]byte(fmt.Sprintf("attachment written by %s in edit %d %s", side, w.n, strings.Repeat("x", 64))))
	atts := fmt.Sprintf(`"a":{"data":"%s"}`, content)
	if strings.Contains(st.Atts, "k=") {
		coll, ctx := rt.GetSingleTestDatabaseCollection()
		if doc, err := coll.GetDocument(ctx, w.doc, db.DocUnmarshalAll); err == nil {
			if m, ok := doc.Attachments()["k"].(map[string]any); ok {
				atts += fmt.Sprintf(`,"k":{"stub":true,"digest":"%v","revpos":%v}`, m["digest"], m["revpos"])
			}
		}
	} else {
		atts += fmt.Sprintf(`,"k":{"data":"%s"}`, base64.StdEncoding.EncodeToString([]byte("kept attachment "+w.doc)))
	}
	body := fmt.Sprintf(`{"by":"%s","n":%d,"channels":["alice"],"_attachments":{%s}}`, side, w.n, atts)
	url := "/{{.keyspace}}/" + w.doc
	if st.Exists {
		url += "?rev=" + st.RevTree
	}
	resp := rt.SendAdminRequest("PUT", url, body)
	if resp.Code != 201 && resp.Code != 200 {
		w.t.Fatalf("edit with attachments on %s failed: %d %s (%s)", side, resp.Code, resp.Body.String(), w.c)
	}
	return true
}

func (w *c06World) del(rt *RestTester, side string) bool {
	st := c06Read(rt, w.doc)
	if !st.Exists || st.Deleted {
		return false
	}
	resp := rt.SendAdminRequest("DELETE", "/{{.keyspace}}/"+w.doc+"?rev="+st.RevTree, "")
	if resp.Code != 200 {
		w.t.Fatalf("delete on %s failed: %d %s (%s)", side, resp.Code, resp.Body.String(), w.c)
	}
	return true
}

type c06RunResult struct {
	Pushed, Pulled int64
	Stopped        bool
	Err            string
}

// replicate runs one one-shot replication of the given direction to completion
func (w *c06World) replicate(dir string) c06RunResult {
	w.active.WaitForPendingChanges()
	w.passive.WaitForPendingChanges()
	direction := map[string]db.ActiveReplicatorDirection{"push": db.ActiveReplicatorTypePush, "pull": db.ActiveReplicatorTypePull, "pushpull": db.ActiveReplicatorTypePushAndPull}[dir]
	cfg := &db.ReplicationCfg{ReplicationConfig: db.ReplicationConfig{
		ID:                     "rep-" + dir,
		Direction:              direction,
		Remote:                 w.url,
		Continuous:             false,
		ConflictResolutionType: db.ConflictResolverType(w.c.Resolver),
		CollectionsEnabled:     base.TestsUseNamedCollections(),
		InitialState:           db.ReplicationStateStopped,
	}}
	mgr := w.active.GetDatabase().SGReplicateMgr
	ar, err := mgr.InitializeReplication(cfg)
	if err != nil {
		w.t.Fatalf("initialize replication: %v", err)
	}
	ctx := w.active.Context()
	before := ar.GetStatus(ctx)
	if err := ar.Start(ctx); err != nil {
		_ = ar.Stop()
		return c06RunResult{Err: err.Error()}
	}
	res := c06RunResult{}
	deadline := time.Now().Add(60 * time.Second)
	for time.Now().Before(deadline) {
		state, msg := ar.State(ctx)
		if state == db.ReplicationStateStopped {
			res.Stopped = true
			break
		}
		if state == db.ReplicationStateError {
			res.Err = msg
			break
		}
		time.Sleep(time.Millisecond)
	}
	after := ar.GetStatus(ctx)
	_ = ar.Stop()
	res.Pushed = after.DocsWritten - before.DocsWritten
	res.Pulled = after.DocsRead - before.DocsRead
	return res
}

// c06RootCause names the mechanism of a divergence where it can be recognised from the two revision trees, so that a
// known mechanism does not hide a different one.
func c06RootCause(a, p c06State) string {
	// The document was created independently on both peers (two roots), and one peer holds a tombstone that is not its
	// winning revision on a branch whose tip is the other peer's live winner: the rev-tree protocol only offers a
	// document's winning revision, so that tombstone (put there by conflict resolution tombstoning the losing branch, or
	// by a local delete that another tombstoned branch outranks) is never propagated. Recognised in both directions.
	// A single-rooted tree in this shape is a different mechanism and is not recognised here.
	oneWay := func(x, y c06State) bool {
		if x.Roots < 2 {
			return false
		}
		yl := map[string]bool{}
		for _, l := range strings.Split(y.Leaves, ",") {
			yl[strings.SplitN(l, "<", 2)[0]] = true
		}
		for _, l := range strings.Split(x.Leaves, ",") {
			parts := strings.SplitN(l, "<", 2)
			if len(parts) != 2 || !strings.HasSuffix(parts[1], "(deleted)") {
				continue
			}
			parent := strings.TrimSuffix(parts[1], "(deleted)")
			if parts[0] != x.RevTree && !yl[parts[0]] && yl[parent] && y.RevTree == parent && !y.Deleted {
				return true
			}
		}
		return false
	}
	if oneWay(a, p) || oneWay(p, a) {
		return "losing-branch-tombstone-not-propagated"
	}
	return ""
}

// c06History runs one history on the given peers using document docID
func c06History(t testing.TB, r *vreport.Report, c c06Case, peers TestISGRPeers, docID string) (valid bool) {
	w := &c06World{t: t, c: c, doc: docID, active: peers.ActiveRT, passive: peers.PassiveRT, url: peers.PassiveDBURL}
	tag := c.Protocol + "/" + c.Resolver
	tag0 := tag // a recognised mechanism is the same finding with or without an environment departure
	if c.Env != nil {
		tag += "/" + c.Env.tag()
	}
	if c.Fault != nil {
		tag += "/" + c.Fault.tag()
	}
	setSync := func(fn string) {
		coll, cctx := w.active.GetSingleTestDatabaseCollectionWithUser()
		if _, err := coll.UpdateSyncFun(cctx, fn); err != nil {
			t.Fatalf("sync function: %v", err)
		}
	}
	setSync(c06RejectingSyncFn) // peers are shared by several histories: every history starts with the refusing function
	accepts := false
	perDirectionFirst := c.Env != nil || c.Fault != nil
	for _, op := range c.Ops {
		if op == "acceptA" {
			perDirectionFirst = true
		}
	}
	for i, op := range c.Ops {
		ok := true
		switch op {
		case "editA":
			ok = w.edit(w.active, "A")
		case "editP":
			ok = w.edit(w.passive, "P")
		case "delA":
			ok = w.del(w.active, "A")
		case "delP":
			ok = w.del(w.passive, "P")
		case "editAatt":
			ok = w.editAtt(w.active, "A")
		case "editPatt":
			ok = w.editAtt(w.passive, "P")
		case "editPbad":
			ok = w.editBody(w.passive, "P", true)
		case "acceptA":
			setSync(c06AcceptingSyncFn)
			accepts = true
		default:
			if strings.HasSuffix(op, "!") {
				// the run during which the environment departs once from its default answer; it may end in error
				// (revision caches emptied, as after eviction, so that the run has to read the document from storage)
				w.active.GetDatabase().FlushRevisionCacheForTest()
				w.passive.GetDatabase().FlushRevisionCacheForTest()
				var res c06RunResult
				var fired bool
				if c.Fault != nil {
					c06ArmFault(w, c.Fault)
					res = w.replicate(strings.TrimSuffix(op, "!"))
					fired = c06DisarmFault(w, r)
				} else {
					c06Hook.arm(w, c.Env)
					res = w.replicate(strings.TrimSuffix(op, "!"))
					var noop bool
					fired, noop = c06Hook.disarm()
					if noop {
						r.Add("departures_that_could_not_be_made", 1)
					}
				}
				if !fired {
					return false // the run makes fewer than K such calls
				}
				if !res.Stopped && res.Err == "" {
					r.Violate(c06Prop+"/replication-did-not-complete/"+tag+"/"+op, fmt.Sprintf("one-shot %s (step %d) reached neither stopped nor error within 60 s; %s", op, i+1, c), c)
					return true
				}
				continue
			}
			res := w.replicate(op)
			if !res.Stopped {
				r.Violate(c06Prop+"/replication-did-not-complete/"+tag+"/"+op, fmt.Sprintf("one-shot %s (step %d) did not reach stopped within 60 s: %q; %s", op, i+1, res.Err, c), c)
				return true
			}
		}
		if !ok {
			return false
		}
	}
	// a document the active peer's sync function still refuses legitimately stays on the passive side only
	refused := func() bool {
		p := c06Read(w.passive, docID)
		return !accepts && strings.Contains(p.Body, `"bad":true`)
	}
	if refused() {
		r.Add("histories_ending_with_a_refused_document", 1)
		return true
	}
	if perDirectionFirst {
		// catch up with the per-direction replications first: they resume from the checkpoints they persisted during the
		// history, so a checkpoint that ran ahead of a refused revision shows as a document that never arrives
		for round := 0; round < 5; round++ {
			moved := false
			for _, dir := range []string{"pull", "push"} {
				a0, p0 := c06Read(w.active, docID), c06Read(w.passive, docID)
				res := w.replicate(dir)
				if !res.Stopped {
					r.Violate(c06Prop+"/replication-did-not-complete/"+tag+"/catch-up-"+dir, fmt.Sprintf("catch-up %s did not reach stopped within 60 s: %q; %s", dir, res.Err, c), c)
					return true
				}
				if res.Pushed != 0 || res.Pulled != 0 || a0 != c06Read(w.active, docID) || p0 != c06Read(w.passive, docID) {
					moved = true
				}
			}
			if !moved {
				break
			}
		}
		a, p := c06Read(w.active, docID), c06Read(w.passive, docID)
		if !refused() && (a.Exists != p.Exists || a.Deleted != p.Deleted || a.Body != p.Body || a.Atts != p.Atts || strings.Contains(a.Atts+p.Atts, "UNREADABLE")) {
			if cause := c06RootCause(a, p); cause != "" {
				r.Violate(c06Prop+"/diverged/"+cause+"/"+tag0, fmt.Sprintf("after pull and push (resuming from their checkpoints) transfer nothing more: active=%+v passive=%+v; %s", a, p, c), c)
			} else {
				r.Violate(c06Prop+"/diverged-after-per-direction-catch-up/"+tag+"/"+strings.Join(c.Ops, ","), fmt.Sprintf("after pull and push (resuming from their checkpoints) transfer nothing more: active=%+v passive=%+v; %s", a, p, c), c)
			}
			return true
		}
	}
	// catch up: push-and-pull until a run transfers nothing
	quiet := false
	var last c06RunResult
	runs := 0
	for runs < 5 {
		runs++
		a0, p0 := c06Read(w.active, docID), c06Read(w.passive, docID)
		last = w.replicate("pushpull")
		if !last.Stopped {
			r.Violate(c06Prop+"/replication-did-not-complete/"+tag+"/catch-up", fmt.Sprintf("catch-up push-and-pull run %d did not reach stopped within 60 s: %q; %s", runs, last.Err, c), c)
			return true
		}
		a1, p1 := c06Read(w.active, docID), c06Read(w.passive, docID)
		if os.Getenv("VERIF_DEBUG") != "" {
			fmt.Printf("DEBUG run %d pushed=%d pulled=%d\n  active  %+v -> %+v\n  passive %+v -> %+v\n", runs, last.Pushed, last.Pulled, a0, a1, p0, p1)
		}
		if last.Pushed == 0 && last.Pulled == 0 && a0 == a1 && p0 == p1 {
			quiet = true
			break
		}
	}
	r.Max("max_catch_up_runs", int64(runs))
	a, p := c06Read(w.active, docID), c06Read(w.passive, docID)
	desc := fmt.Sprintf("active=%+v passive=%+v; %s", a, p, c)
	if !quiet {
		r.Violate(c06Prop+"/never-quiescent/"+tag+"/"+strings.Join(c.Ops, ","), fmt.Sprintf("after 5 push-and-pull runs a run still transfers revisions (pushed=%d pulled=%d); %s", last.Pushed, last.Pulled, desc), c)
		return true
	}
	if !a.Exists && !p.Exists {
		r.Distinct("outcomes", "absent")
		return true
	}
	if refused() {
		r.Add("histories_ending_with_a_refused_document", 1)
		return true
	}
	var diffs []string
	if a.Exists != p.Exists {
		diffs = append(diffs, "document-on-one-side-only")
	} else {
		if a.Deleted != p.Deleted {
			diffs = append(diffs, "tombstone-state-differs")
		}
		if a.Body != p.Body {
			diffs = append(diffs, "body-differs")
		}
		if a.Atts != p.Atts || strings.Contains(a.Atts+p.Atts, "UNREADABLE") {
			diffs = append(diffs, "attachments-differ-or-unreadable")
		}
		if c.Protocol == "v3" && a.RevTree != p.RevTree {
			diffs = append(diffs, "current-revision-differs")
		}
		if c.Protocol == "v4" && a.CV != p.CV {
			diffs = append(diffs, "current-version-differs")
		}
		if c.Protocol == "v4" && a.CV == p.CV && a.RevTree != p.RevTree {
			r.Add("v4_revtree_ids_differ_with_equal_cv", 1)
		}
	}
	if len(diffs) == 1 && diffs[0] == "current-version-differs" && a.Deleted && p.Deleted {
		// both peers deleted the document independently: the two tombstones have the same revision-tree id but each peer
		// generated its own version for it, and replication treats tombstone-against-tombstone as nothing to do
		r.Violate(c06Prop+"/diverged/independent-deletes-keep-different-current-versions/"+tag0, "after catch-up both peers hold a tombstone (winning revision "+a.RevTree+" / "+p.RevTree+") under different current versions: "+desc, c)
		return true
	}
	if len(diffs) > 0 {
		if cause := c06RootCause(a, p); cause != "" {
			r.Violate(c06Prop+"/diverged/"+cause+"/"+tag0, "after catch-up ("+strings.Join(diffs, ", ")+"): "+desc, c)
		} else {
			r.Violate(c06Prop+"/diverged/"+strings.Join(diffs, "+")+"/"+tag+"/"+strings.Join(c.Ops, ","), "after catch-up: "+desc, c)
		}
		return true
	}
	kind := "live"
	if a.Deleted {
		kind = "tombstone"
	}
	var m map[string]any
	_ = json.Unmarshal([]byte(a.Body), &m)
	r.Distinct("outcomes", fmt.Sprintf("%s/by=%v", kind, m["by"]))
	// one more run transfers nothing (also on the single-direction replications, which restart from their checkpoints)
	for _, dir := range []string{"pushpull", "push", "pull"} {
		res := w.replicate(dir)
		a2, p2 := c06Read(w.active, docID), c06Read(w.passive, docID)
		if res.Pushed != 0 || res.Pulled != 0 || a2 != a || p2 != p {
			r.Violate(c06Prop+"/caught-up-replication-transfers-revisions/"+tag+"/"+dir+"/"+strings.Join(c.Ops, ","), fmt.Sprintf("re-running caught-up %s transferred pushed=%d pulled=%d, active now %+v passive now %+v; before: %s", dir, res.Pushed, res.Pulled, a2, p2, desc), c)
		}
	}
	return true
}

func c06Peers(t *testing.T, protocol string, leaky bool) TestISGRPeers {
	if !leaky {
		return c06PeersWith(t, protocol, nil, nil)
	}
	// both peers on buckets whose document reads and update callbacks pass through the harness's seam (c06Hook)
	ctx := base.TestCtx(t)
	ab, pb := base.GetTestBucket(t), base.GetTestBucket(t)
	t.Cleanup(func() { ab.Close(ctx); pb.Close(ctx) })
	return c06PeersWith(t, protocol, ab.LeakyBucketClone(c06Hook.config("A")), pb.LeakyBucketClone(c06Hook.config("P")))
}

// c06PeersWith builds the two peers, on the given buckets when they are not nil
func c06PeersWith(t *testing.T, protocol string, ab, pb *base.TestBucket) TestISGRPeers {
	protocols := []string{db.CBMobileReplicationV3.SubprotocolString()}
	if protocol == "v4" {
		protocols = []string{db.CBMobileReplicationV4.SubprotocolString()}
	}
	opts := TestISGRPeerOpts{ActivePeerSupportedBLIPSubProtocols: protocols,
		ActiveRestTesterConfig: &RestTesterConfig{DatabaseConfig: &DatabaseConfig{DbConfig: DbConfig{Name: "activedb"}}, SgReplicateEnabled: true, SyncFn: c06RejectingSyncFn}}
	if ab != nil {
		opts.ActiveRestTesterConfig.CustomTestBucket = ab
		opts.PassiveRestTesterConfig = &RestTesterConfig{DatabaseConfig: &DatabaseConfig{DbConfig: DbConfig{Name: "passivedb"}},
			SyncFn: c06AcceptingSyncFn, CustomTestBucket: pb}
	}
	return SetupISGRPeersWithOpts(t, opts)
}

func TestVerifC06(t *testing.T) {
	r := vreport.Begin("C06")
	defer r.Finish(t)
	r.Rule("histories over {push, pull, pushpull (one-shot, run to completion, one replication id per direction so later runs restart from the checkpoint), editA, editP, delA, delP}; plus histories that start with editPbad (an edit the active peer's sync function refuses) followed by up to D-1 of {pull, push, pushpull, acceptA (the active peer starts accepting), editP} (edit on a tombstone = resurrection) on one document, depth <= D, x protocol {rev-tree v3, version-vector v4} x resolver; histories whose delete has no live document are pruned; a pair of peers serves up to 40 histories, each on its own document, so most histories also start from non-initial replication checkpoints; non-trivial = distinct valid (history, protocol, resolver)")
	r.Assume("local writes interleave with replication at operation granularity (main part) and at one storage call of the document inside a run (part b); other scheduling inside one replication run (BLIP goroutines, sockets; the push and the pull half of a push-and-pull run) is left to the Go runtime, so those intra-run races are met as they happen, not enumerated; the replicating-client (Couchbase Lite) side of the statement is represented by the passive peer only")
	var rc c06Case
	if r.Replaying(&rc) {
		t.Run("replay", func(t *testing.T) {
			c06History(t, r, rc, c06Peers(t, rc.Protocol, rc.Env != nil), "d1")
		})
		return
	}
	D := 3
	resolvers := []string{"default"}
	if r.Thorough() {
		D = 4
		// (localWins / remoteWins are refused by this Community Edition build: "only supported in enterprise edition")
	}
	r.Note("max_depth", D)
	// enumerate this shard's cases
	groups := map[string][]c06Case{}
	var order []string
	idx := 0
	var rec func(h []string)
	rec = func(h []string) {
		hasWrite := false
		for _, o := range h {
			if strings.HasPrefix(o, "edit") {
				hasWrite = true
			}
		}
		if hasWrite {
			for _, proto := range []string{"v3", "v4"} {
				for _, res := range resolvers {
					idx++
					if !r.Mine(idx) {
						continue
					}
					k := proto + "/" + res
					if _, ok := groups[k]; !ok {
						order = append(order, k)
					}
					groups[k] = append(groups[k], c06Case{Ops: append([]string{}, h...), Protocol: proto, Resolver: res})
				}
			}
		}
		if len(h) == D {
			return
		}
		for _, op := range c06Alphabet {
			if strings.HasPrefix(op, "del") && !hasWrite {
				continue // a delete needs an earlier edit somewhere
			}
			rec(append(h, op))
		}
	}
	rec(nil)
	var rec2 func(h []string)
	rec2 = func(h []string) {
		if len(h) > 1 {
			for _, proto := range []string{"v3", "v4"} {
				for _, res := range resolvers {
					idx++
					if !r.Mine(idx) {
						continue
					}
					k := proto + "/" + res
					if _, ok := groups[k]; !ok {
						order = append(order, k)
					}
					groups[k] = append(groups[k], c06Case{Ops: append([]string{}, h...), Protocol: proto, Resolver: res})
				}
			}
		}
		if len(h) == D {
			return
		}
		for _, op := range c06RefusedAlphabet {
			rec2(append(h, op))
		}
	}
	rec2([]string{"editPbad"})
	n := 0
	for _, k := range order {
		cases := groups[k]
		for lo := 0; lo < len(cases); lo += 40 {
			hi := lo + 40
			if hi > len(cases) {
				hi = len(cases)
			}
			if r.Expired() {
				break
			}
			t.Run(fmt.Sprintf("%s-%d", strings.ReplaceAll(k, "/", "-"), lo), func(t *testing.T) {
				peers := c06Peers(t, cases[lo].Protocol, false)
				for _, c := range cases[lo:hi] {
					if r.Expired() {
						return
					}
					n++
					if c06History(t, r, c, peers, fmt.Sprintf("d%d", n)) {
						r.Add("evaluations", 1)
						r.Add("distinct_nontrivial", 1)
						if n <= 2 || n%53 == 0 {
							r.Sample(map[string]any{"case": c.String()})
						}
					} else {
						r.Add("pruned_invalid", 1)
					}
				}
			})
		}
	}
	if r.Expired() {
		r.Cap("time budget reached before all histories were explored")
	}
}
