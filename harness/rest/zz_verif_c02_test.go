//go:build verif

package rest

import (
	"encoding/base64"
	"encoding/json"
	"fmt"
	"net/http"
	"net/url"
	"sort"
	"strings"
	"testing"

	"github.com/couchbase/sync_gateway/db"
	"github.com/couchbase/sync_gateway/verifshim/vreport"
)

// C02 — no document content is disclosed outside the reader's channels.
// E3 over a world in which every revision body, attachment and document id carries a unique marker:
// user x document x revision x read surface x flags (x revision cache warm / flushed); the raw bytes of every
// response are searched for markers the reader must not see; conversely the current revision of a visible
// document must be readable.

const c02SyncFn = `function(doc, oldDoc) {
	channel(doc.channels);
	if (doc.grant_user) { access(doc.grant_user, doc.grant_chan); }
}`

type c02Rev struct {
	doc     string
	tag     string
	rev     string
	chans   []string
	marker  string
	deleted bool
	current bool
}

type c02World struct {
	rt      *RestTester
	revs    []*c02Rev
	docs    []string
	attDoc  string
	attMark string
	att2Mark  string
	att2Chans []string
	users   map[string][]string // effective channels
	variant string
}

func c02Marker(doc, tag string) string { return "SECRET" + doc + "x" + tag }

func (w *c02World) add(doc, tag, rev string, chans []string, deleted bool) *c02Rev {
	for _, r := range w.revs {
		if r.doc == doc {
			r.current = false
		}
	}
	r := &c02Rev{doc: doc, tag: tag, rev: rev, chans: chans, marker: c02Marker(doc, tag), deleted: deleted, current: true}
	w.revs = append(w.revs, r)
	found := false
	for _, d := range w.docs {
		if d == doc {
			found = true
		}
	}
	if !found {
		w.docs = append(w.docs, doc)
	}
	return r
}

func c02Body(doc, tag string, chans []string) string {
	b, _ := json.Marshal(map[string]any{"channels": chans, "secret": c02Marker(doc, tag)})
	return string(b)
}

func c02Build(t testing.TB, variant string) *c02World {
	rt := NewRestTester(t, &RestTesterConfig{SyncFn: c02SyncFn})
	w := &c02World{rt: rt, variant: variant, users: map[string][]string{}}
	put := func(doc, tag string, chans []string) db_DocVersion {
		v := rt.PutDoc(doc, c02Body(doc, tag, chans))
		w.add(doc, tag, v.RevTreeID, chans, false)
		return v
	}
	upd := func(doc, tag string, prev db_DocVersion, chans []string) db_DocVersion {
		v := rt.UpdateDoc(doc, prev, c02Body(doc, tag, chans))
		w.add(doc, tag, v.RevTreeID, chans, false)
		return v
	}
	first, second := []string{"A"}, []string{"B"}
	if variant == "reverse" {
		first, second = second, first
	}
	// principals (created before or after the documents depending on the variant)
	mkPrincipals := func() {
		rt.CreateRole("rB", []string{"B"})
		rt.CreateUser("uA", []string{"A"})
		rt.CreateUser("uRB", nil, "rB")
		rt.CreateUser("uNone", nil)
		rt.CreateUser("uStar", []string{"*"})
		rt.CreateUser("uAcc", nil)
	}
	if variant != "principals-last" {
		mkPrincipals()
	}
	put("doccur", "1", []string{"A"})
	v := put("docmoved", "1", first)
	upd("docmoved", "2", v, second)
	v = put("docupd", "1", []string{"A"})
	upd("docupd", "2", v, []string{"A"})
	// (conflicting leaves cannot be created through this server version: allow_conflicts is rejected by the REST configuration)
	v = put("doctomb", "1", []string{"A"})
	dv := rt.DeleteDoc("doctomb", v)
	w.add("doctomb", "del", dv.RevTreeID, nil, true)
	put("NEVERSEEN", "1", []string{"Z"})
	put("docpub", "1", []string{"!"})
	w.attMark = "ATTSECRETzq"
	av := rt.PutDocWithAttachment("docatt", c02Body("docatt", "1", []string{"A"}), "a.txt", base64.StdEncoding.EncodeToString([]byte(w.attMark)))
	w.add("docatt", "1", av.RevTreeID, []string{"A"}, false)
	w.attDoc = "docatt"
	// a document that had no attachment while it was in the first channel and gained one when it moved to the second
	mv := put("docattmoved", "1", first)
	w.att2Mark = "ATT2SECRETkx"
	{
		var bm map[string]any
		_ = json.Unmarshal([]byte(c02Body("docattmoved", "2", second)), &bm)
		bm["_attachments"] = map[string]any{"late.txt": map[string]any{"data": base64.StdEncoding.EncodeToString([]byte(w.att2Mark))}}
		bb, _ := json.Marshal(bm)
		resp := rt.SendAdminRequest("PUT", "/{{.keyspace}}/docattmoved?rev="+mv.RevTreeID, string(bb))
		RequireStatus(t, resp, http.StatusCreated)
		mv2 := DocVersionFromPutResponse(t, resp)
		w.add("docattmoved", "2", mv2.RevTreeID, second, false)
	}
	w.att2Chans = second
	// access() grant of channel A to uAcc from a document in a channel nobody has
	gv := rt.PutDoc("grantdoc", `{"channels":["G"],"grant_user":"uAcc","grant_chan":"A","secret":"`+c02Marker("grantdoc", "1")+`"}`)
	w.add("grantdoc", "1", gv.RevTreeID, []string{"G"}, false)
	if variant == "principals-last" {
		mkPrincipals()
	}
	w.users = map[string][]string{"uA": {"A", "!"}, "uRB": {"B", "!"}, "uNone": {"!"}, "uStar": {"*"}, "uAcc": {"A", "!"}}
	rt.WaitForPendingChanges()
	return w
}

type db_DocVersion = DocVersion

func (w *c02World) canSee(user string, chans []string) bool {
	for _, uc := range w.users[user] {
		if uc == "*" {
			return true
		}
		for _, c := range chans {
			if c == uc {
				return true
			}
		}
	}
	return false
}

// everVisible: the document was at some revision in one of the user's channels
func (w *c02World) everVisible(user, doc string) bool {
	for _, r := range w.revs {
		if r.doc == doc && w.canSee(user, r.chans) {
			return true
		}
	}
	return false
}

type c02Case struct {
	Variant string `json:"variant"`
	User    string `json:"user"`
	Method  string `json:"method"`
	Path    string `json:"path"`
	Body    string `json:"body,omitempty"`
	Cache   string `json:"cache"`
	Listing bool   `json:"listing,omitempty"`
}

func (w *c02World) requests() []c02Case {
	var out []c02Case
	add := func(method, path, body string, listing bool) {
		out = append(out, c02Case{Method: method, Path: path, Body: body, Listing: listing})
	}
	ks := "/{{.keyspace}}/"
	var bulk []map[string]string
	revsByDoc := map[string][]string{}
	for _, r := range w.revs {
		revsByDoc[r.doc] = append(revsByDoc[r.doc], r.rev)
		bulk = append(bulk, map[string]string{"id": r.doc, "rev": r.rev})
	}
	for _, d := range w.docs {
		for _, q := range []string{"", "?revs=true", "?show_cv=true", "?attachments=true", "?replicator2=true", "?open_revs=all", "?open_revs=all&revs=true&attachments=true", "?show_exp=true"} {
			add("GET", ks+d+q, "", false)
		}
		for _, rev := range revsByDoc[d] {
			add("GET", ks+d+"?rev="+rev, "", false)
			add("GET", ks+d+"?rev="+rev+"&revs=true&attachments=true", "", false)
			add("GET", ks+d+"?rev="+rev+"&replicator2=true", "", false)
			or, _ := json.Marshal([]string{rev})
			add("GET", ks+d+"?open_revs="+url.QueryEscape(string(or)), "", false)
			add("GET", ks+d+"?open_revs="+url.QueryEscape(string(or))+"&attachments=true", "", false)
			add("GET", ks+d+"?atts_since="+url.QueryEscape(string(or))+"&attachments=true", "", false)
		}
		allRevs, _ := json.Marshal(revsByDoc[d])
		add("GET", ks+d+"?open_revs="+url.QueryEscape(string(allRevs)), "", false)
		rd, _ := json.Marshal(map[string][]string{d: append([]string{"9-zzzz"}, revsByDoc[d]...)})
		add("POST", ks+"_revs_diff", string(rd), false)
	}
	add("GET", ks+w.attDoc+"/a.txt", "", false)
	for _, rev := range revsByDoc["docattmoved"] {
		add("GET", ks+"docattmoved/late.txt?rev="+rev, "", false)
	}
	add("GET", ks+"docattmoved/late.txt", "", false)
	// changes restricted to given document ids (every document, incl. ones the user never had)
	var ids []string
	for _, d := range w.docs {
		ids = append(ids, d)
	}
	idsJSON, _ := json.Marshal(ids)
	add("GET", ks+"_changes?filter=_doc_ids&doc_ids="+url.QueryEscape(string(idsJSON)), "", true)
	add("GET", ks+"_changes?filter=_doc_ids&include_docs=true&doc_ids="+url.QueryEscape(string(idsJSON)), "", true)
	add("POST", ks+"_changes", `{"filter":"_doc_ids","doc_ids":`+string(idsJSON)+`,"include_docs":true}`, true)
	add("POST", ks+"_changes", `{"filter":"_doc_ids","doc_ids":`+string(idsJSON)+`,"since":3}`, true)
	for _, r := range w.revs {
		if r.doc == w.attDoc {
			add("GET", ks+w.attDoc+"/a.txt?rev="+r.rev, "", false)
		}
	}
	bg, _ := json.Marshal(map[string]any{"docs": bulk})
	for _, q := range []string{"", "?attachments=true", "?revs=true&attachments=true", "?show_cv=true"} {
		add("POST", ks+"_bulk_get"+q, string(bg), false)
	}
	var idsOnly []map[string]string
	for _, d := range w.docs {
		idsOnly = append(idsOnly, map[string]string{"id": d})
	}
	bg2, _ := json.Marshal(map[string]any{"docs": idsOnly})
	add("POST", ks+"_bulk_get?attachments=true", string(bg2), false)
	for _, q := range []string{"", "?include_docs=true", "?channels=true", "?include_docs=true&channels=true&revs=true", "?update_seq=true&include_docs=true"} {
		add("GET", ks+"_all_docs"+q, "", true)
	}
	keys, _ := json.Marshal(map[string]any{"keys": w.docs})
	// explicit keys: the client names the ids itself; the per-key "forbidden" answer (like a 403 on a single GET) is not
	// treated as a listing that reveals existence - only body markers are checked here
	add("POST", ks+"_all_docs?include_docs=true", string(keys), false)
	for _, q := range []string{"", "?include_docs=true", "?style=all_docs&include_docs=true", "?active_only=true&include_docs=true", "?filter=sync_gateway/bychannel&channels=A,B,Z&include_docs=true", "?revocations=true&include_docs=true"} {
		add("GET", ks+"_changes"+q, "", true)
	}
	add("POST", ks+"_changes", `{"include_docs":true,"style":"all_docs"}`, true)
	add("POST", ks+"_changes", `{"include_docs":true,"filter":"sync_gateway/bychannel","channels":"Z,A"}`, true)
	return out
}

func (w *c02World) check(r *vreport.Report, c c02Case) {
	rt := w.rt
	resp := rt.SendUserRequest(c.Method, c.Path, c.Body, c.User)
	raw := resp.Body.String()
	r.Distinct("status_by_surface", fmt.Sprintf("%s %s %d", c.User, c02Surface(c), resp.Code))
	surface := c02Surface(c)
	for _, rv := range w.revs {
		if rv.deleted {
			continue
		}
		if strings.Contains(raw, rv.marker) && !w.canSee(c.User, rv.chans) {
			kind := "superseded-or-moved-revision"
			if rv.current {
				kind = "current-revision"
			}
			r.Violate(fmt.Sprintf("C02/body-disclosed/%s/%s", surface, kind), fmt.Sprintf("user %s (channels %v) received the body of %s rev %s (channels %v) from %s %s [%s cache, variant %s]: %.300s", c.User, w.users[c.User], rv.doc, rv.rev, rv.chans, c.Method, c.Path, c.Cache, w.variant, raw), c)
		}
	}
	if strings.Contains(raw, w.attMark) || strings.Contains(raw, base64.StdEncoding.EncodeToString([]byte(w.attMark))) {
		if !w.canSee(c.User, []string{"A"}) {
			r.Violate("C02/attachment-disclosed/"+surface, fmt.Sprintf("user %s received the attachment data of %s from %s %s [%s cache]", c.User, w.attDoc, c.Method, c.Path, c.Cache), c)
		}
	}
	if w.att2Mark != "" && (strings.Contains(raw, w.att2Mark) || strings.Contains(raw, base64.StdEncoding.EncodeToString([]byte(w.att2Mark)))) {
		if !w.canSee(c.User, w.att2Chans) {
			r.Violate("C02/attachment-disclosed/"+surface, fmt.Sprintf("user %s (channels %v) received the data of the attachment that docattmoved only carries in its revision in channels %v, from %s %s [%s cache, variant %s]", c.User, w.users[c.User], w.att2Chans, c.Method, c.Path, c.Cache, w.variant), c)
		}
	}
	if c.Listing {
		for _, d := range w.docs {
			if !w.everVisible(c.User, d) && strings.Contains(raw, `"`+d+`"`) {
				r.Violate("C02/existence-revealed/"+surface, fmt.Sprintf("user %s (channels %v) sees document id %s, which was never in one of its channels, in %s %s: %.300s", c.User, w.users[c.User], d, c.Method, c.Path, raw), c)
			}
		}
	}
}

func c02Surface(c c02Case) string {
	p := strings.TrimPrefix(c.Path, "/{{.keyspace}}/")
	base := p
	q := ""
	if i := strings.Index(p, "?"); i >= 0 {
		base, q = p[:i], p[i+1:]
	}
	var flags []string
	for _, kv := range strings.Split(q, "&") {
		if kv == "" {
			continue
		}
		k := strings.SplitN(kv, "=", 2)[0]
		flags = append(flags, k)
	}
	sort.Strings(flags)
	switch {
	case strings.HasPrefix(base, "_"):
	case strings.Contains(base, "/"):
		base = "attachment"
	default:
		base = "doc"
	}
	return c.Method + " " + base + "?" + strings.Join(flags, "&")
}

// converse: the current revision of a visible document is readable
func (w *c02World) checkReadable(r *vreport.Report, cache string) {
	for user := range w.users {
		for _, rv := range w.revs {
			if !rv.current || rv.deleted || rv.doc == "docconf" {
				continue
			}
			if !w.canSee(user, rv.chans) {
				continue
			}
			resp := w.rt.SendUserRequest("GET", "/{{.keyspace}}/"+rv.doc, "", user)
			if resp.Code != http.StatusOK || !strings.Contains(resp.Body.String(), rv.marker) {
				r.Violate("C02/visible-current-revision-not-readable", fmt.Sprintf("user %s (channels %v) cannot read %s (channels %v): %d %.200s [%s cache, variant %s]", user, w.users[user], rv.doc, rv.chans, resp.Code, resp.Body.String(), cache, w.variant),
					c02Case{Variant: w.variant, User: user, Method: "GET", Path: "/{{.keyspace}}/" + rv.doc, Cache: cache})
			}
			r.Add("evaluations", 1)
		}
	}
}

var _ = db.BodyId

func TestVerifC02(t *testing.T) {
	r := vreport.Begin("C02")
	defer r.Finish(t)
	r.Rule("worlds (document write order variants) in which every revision body, attachment and document id carries a unique marker: documents that are current, superseded in the same channel, moved between channels, conflicting with leaves in different channels, tombstoned, never visible, public, with an attachment; users with a direct grant, a role grant, no grant, the wildcard, a sync-function access() grant. Every user x document x revision x REST read surface x flag combination x revision cache warm/flushed; non-trivial = distinct (user, request, cache state)")
	r.Assume("REST surfaces only in this tier (document GET with rev / revs / open_revs / attachments / atts_since / show_cv / replicator2, attachment GET, _bulk_get, _all_docs, _changes incl. include_docs and style=all_docs, _revs_diff); the replication protocol's messages call the same database functions and are not enumerated here")
	variants := []string{"default", "reverse", "principals-last"}
	var rc c02Case
	if r.Replaying(&rc) {
		w := c02Build(t, rc.Variant)
		defer w.rt.Close()
		if rc.Cache == "flushed" {
			w.rt.GetDatabase().FlushRevisionCacheForTest()
		}
		w.check(r, rc)
		return
	}
	idx := 0
	for _, variant := range variants {
		// every shard builds the world it needs lazily
		var w *c02World
		for _, cache := range []string{"warm", "flushed", "warm-again"} {
			users := []string{"uA", "uRB", "uNone", "uStar", "uAcc"}
			for _, u := range users {
				idx++
				if !r.Mine(idx) {
					continue
				}
				if w == nil {
					w = c02Build(t, variant)
				}
				if cache == "flushed" {
					w.rt.GetDatabase().FlushRevisionCacheForTest()
				}
				for _, c := range w.requests() {
					c.User, c.Variant, c.Cache = u, variant, cache
					w.check(r, c)
					r.Add("evaluations", 1)
					r.Add("distinct_nontrivial", 1)
					if r.Get("evaluations")%257 == 0 {
						r.Sample(c)
					}
				}
				w.checkReadable(r, cache)
			}
		}
		if w != nil {
			w.rt.Close()
		}
	}
}
