#!/bin/bash
# trial_seeds.sh <seed-name>...: for each seed, apply it in a scratch worktree (/tmp/repo2) of /repo HEAD and run the
# property's check there (VERIF_REPO), quick tier; result summary is written to seeded/<seed>/trial_<tier>.log
TIER=${TIER:-quick}
W=${W:-/tmp/repo2}
for s in "$@"; do
  S=/verif/seeded/$s
  P=${PROP:-${s%%-*}}
  SUF=""; [ -n "$PROP" ] && SUF="_$PROP"
  rm -rf $W; git -C /repo worktree prune; git -C /repo worktree add -q --detach $W HEAD || exit 2
  if ! git -C $W apply $S/patch.diff 2>$S/trial_apply.err; then echo "$s: PATCH DOES NOT APPLY" | tee $S/trial_$TIER$SUF.log; git -C /repo worktree remove --force $W; continue; fi
  (cd /verif && VERIF_REPO=$W VERIF_EVIDENCE_DIR=/tmp/trial_evidence ./check $P --tier $TIER > $S/trial_$TIER$SUF.full.log 2>&1; echo "exit=$?" >> $S/trial_$TIER$SUF.full.log)
  grep -E "^(VIOLATION|  fingerprint|SUMMARY|ENGINE|exit=)" $S/trial_$TIER$SUF.full.log | cut -c1-250 > $S/trial_$TIER$SUF.log
  echo "== $s: $(grep -c '^VIOLATION' $S/trial_$TIER$SUF.log) violations; $(grep '^exit=' $S/trial_$TIER$SUF.log)"
  git -C /repo worktree remove --force $W
done
