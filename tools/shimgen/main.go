// shimgen copies every .go file of a package directory, changing nothing but the import specs of "sync"
// (to <mod>/verifshim/vsync, named sync) and, for a listed set of files, "sync/atomic" (to
// <mod>/verifshim/vatomic, named atomic). The change is a byte splice at the import spec's position, so all
// other bytes, and therefore line numbers, are identical to the working-tree file. It prints one
// "MAP <original> <copy>" line per rewritten file for the build overlay.
package main

import (
	"flag"
	"fmt"
	"go/parser"
	"go/token"
	"os"
	"path/filepath"
	"sort"
	"strings"
)

func main() {
	src := flag.String("src", "", "package directory")
	out := flag.String("out", "", "output directory")
	mod := flag.String("mod", "", "module path")
	syncMode := flag.String("sync", "", "all = rewrite sync in every file")
	atomicFiles := flag.String("atomic", "", "comma separated file names (or all) whose sync/atomic import is rewritten")
	_ = flag.String("time", "", "unused")
	flag.Parse()
	atomicSet := map[string]bool{}
	for _, f := range strings.Split(*atomicFiles, ",") {
		if f != "" {
			atomicSet[f] = true
		}
	}
	files, _ := filepath.Glob(filepath.Join(*src, "*.go"))
	sort.Strings(files)
	n := 0
	for _, f := range files {
		b, err := os.ReadFile(f)
		if err != nil {
			fmt.Fprintln(os.Stderr, err)
			os.Exit(1)
		}
		fset := token.NewFileSet()
		af, err := parser.ParseFile(fset, f, b, parser.ImportsOnly|parser.ParseComments)
		if err != nil {
			fmt.Fprintln(os.Stderr, err)
			os.Exit(1)
		}
		type splice struct {
			from, to int
			text     string
		}
		var sp []splice
		name := filepath.Base(f)
		for _, im := range af.Imports {
			path := strings.Trim(im.Path.Value, "\"`")
			var repl string
			switch {
			case path == "sync" && *syncMode == "all":
				repl = *mod + "/verifshim/vsync"
			case path == "sync/atomic" && (atomicSet[name] || atomicSet["all"]):
				repl = *mod + "/verifshim/vatomic"
			default:
				continue
			}
			local := filepath.Base(path)
			if im.Name != nil {
				local = im.Name.Name
			}
			start := fset.Position(im.Pos()).Offset
			end := fset.Position(im.End()).Offset
			sp = append(sp, splice{start, end, fmt.Sprintf("%s %q", local, repl)})
		}
		if len(sp) == 0 {
			continue
		}
		sort.Slice(sp, func(i, j int) bool { return sp[i].from > sp[j].from })
		for _, s := range sp {
			b = append(append(append([]byte{}, b[:s.from]...), []byte(s.text)...), b[s.to:]...)
		}
		dst := filepath.Join(*out, name)
		if err := os.WriteFile(dst, b, 0o644); err != nil {
			fmt.Fprintln(os.Stderr, err)
			os.Exit(1)
		}
		fmt.Printf("MAP %s %s\n", f, dst)
		n++
	}
	fmt.Fprintf(os.Stderr, "shimgen: %d files rewritten\n", n)
}
