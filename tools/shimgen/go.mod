module shimgen

go 1.23
