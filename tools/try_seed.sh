#!/bin/bash
# try_seed.sh <seed-dir> <PROPERTY> [tier]: apply the seeded change to /repo, run the property's check, undo the change.
S=$1; P=$2; T=${3:-quick}
cd /repo || exit 2
if [ -n "$(git status --porcelain)" ]; then echo "repo not clean"; exit 2; fi
git apply $S/patch.diff || { echo "patch does not apply"; exit 3; }
cd /verif && ./check $P --tier $T > $S/check_$P_$T.log 2>&1; rc=$?
cd /repo && git checkout -- . && git status --porcelain
grep -E "^(VIOLATION|SUMMARY|ENGINE|KNOWN)" $S/check_$P_$T.log | head -8
echo "exit=$rc"
