#!/usr/bin/env python3
"""Write seeded/<seed>/meta.json from the producing agent's meta, my verification run and the trial logs."""
import json, os, glob, re
root = '/verif/seeded'
for d in sorted(os.listdir(root)):
    p = os.path.join(root, d)
    if not os.path.isdir(p):
        continue
    am = {}
    try:
        am = json.load(open(os.path.join(p, 'agent_meta.json')))
    except Exception:
        pass
    ver = None
    try:
        ver = json.load(open(os.path.join(p, 'verify.json')))
    except Exception:
        pass
    trials = []
    detected_by = []
    for f in sorted(glob.glob(os.path.join(p, 'trial_*.log'))):
        if f.endswith('.full.log'):
            continue
        name = os.path.basename(f)[len('trial_'):-len('.log')]
        tier, _, other = name.partition('_')
        prop = other or d.split('-')[0]
        txt = open(f).read()
        if 'PATCH DOES NOT APPLY' in txt:
            trials.append({"check": prop, "tier": tier, "result": "patch does not apply to the current tree"})
            continue
        fps = sorted(set(re.findall(r'fingerprint: (\S+)', txt)))
        n = len(re.findall(r'^VIOLATION', txt, re.M))
        trials.append({"check": prop, "tier": tier, "command": "VERIF_REPO=<scratch worktree with patch.diff applied> ./check %s --tier %s" % (prop, tier),
                       "violations_reported": n, "fingerprints": fps[:12]})
        if n > 0:
            detected_by.append("%s (%s)" % (prop, tier))
    meta = {
        "seed": d,
        "property": am.get("property", d.split('-')[0]),
        "summary": am.get("summary", ""),
        "files_changed": am.get("files", []),
        "needs_to_manifest": am.get("needs_to_manifest", ""),
        "demonstration": {"file": "demo_test.go", "command_reported_by_author": am.get("demo_cmd", ""),
                          "author_reports": {"fails_with_patch": am.get("demo_fails_with_patch"), "passes_without_patch": am.get("demo_passes_without_patch"),
                                             "suites_run_with_patch": am.get("suites_run", [])}},
        "my_verification": ver if ver else "not re-run",
        "trials": trials,
        "detected_by": detected_by,
    }
    if os.path.exists(os.path.join(p, 'patch_original.diff')):
        meta["note"] = "patch.diff was rebased onto the tree after a fix: commit touched the same lines; patch_original.diff is the author's version"
    if d == 'C12-3':
        meta["note"] = "no longer applies: fix 396d1cd rewrote AuthenticateCookie; the cooperating REST-side leniency is not driven by any check"
    if d == 'C02-3':
        meta["note"] = "GetDelta is unreachable through the servers in this (CE) build: delta sync is forced off in rest/config.go"
    json.dump(meta, open(os.path.join(p, 'meta.json'), 'w'), indent=1)
print("ok")
