#!/bin/bash
# verify_seed.sh <seed-dir> [suites]: confirm in a scratch worktree of /repo HEAD that the patch applies and compiles, the
# demonstration fails with it and passes without it, and (if suites=1) that ./db and ./rest still pass with it.
S=$1; SUITES=${2:-1}
name=$(basename $S)
W=/tmp/vs/$name
export GOFLAGS=-mod=mod GOPROXY=off
rm -rf $W; mkdir -p /tmp/vs
git -C /repo worktree add -q --detach $W HEAD || exit 2
cd $W
pkg=$(head -3 $S/demo_test.go | grep -o -E '(db|rest|auth|base|channels)(/[a-z]+)?' | head -1)
[ -z "$pkg" ] && pkg=db
res="{\"seed\":\"$name\",\"pkg\":\"$pkg\""
if ! git apply $S/patch.diff 2>/tmp/vs/$name.apply.err; then
  res="$res,\"applies\":false}"; echo "$res" > $S/verify.json; cat $S/verify.json
  cd /; git -C /repo worktree remove --force $W; exit 0
fi
cp $S/demo_test.go $pkg/zz_seed_demo_test.go
demo_with=$(go test -vet=off -count=1 -run 'TestSeedDemo|TestZZSeed' ./$pkg/ 2>&1 | grep -E "^(ok|FAIL|---)" | tr '\n' ' ')
suites=""
if [ "$SUITES" = "1" ]; then
  rm $pkg/zz_seed_demo_test.go
  suites=$(go test -vet=off -count=1 -timeout 25m ./db ./rest ./auth ./base ./channels 2>&1 | grep -E "^(ok|FAIL|--- FAIL|panic)" | tr '\n' ' ')
  cp $S/demo_test.go $pkg/zz_seed_demo_test.go
fi
git apply -R $S/patch.diff
demo_without=$(go test -vet=off -count=1 -run 'TestSeedDemo|TestZZSeed' ./$pkg/ 2>&1 | grep -E "^(ok|FAIL|---)" | tr '\n' ' ')
python3 - "$name" "$pkg" "$demo_with" "$demo_without" "$suites" > $S/verify.json <<'PY'
import json,sys
n,pkg,dw,dwo,su=sys.argv[1:6]
print(json.dumps({"seed":n,"pkg":pkg,"applies":True,"demo_with_patch":dw,"demo_without_patch":dwo,"suites_with_patch":su,
 "demo_fails_with_patch":"FAIL" in dw,"demo_passes_without_patch":("ok" in dwo and "FAIL" not in dwo),"suites_pass":("FAIL" not in su and "panic" not in su) if su else None},indent=1))
PY
cat $S/verify.json
cd /; git -C /repo worktree remove --force $W
