#!/bin/bash
# import_seeds.sh <ID>: copy /tmp/seed/<ID>/SEED/{patchN.diff,demoN_test.go,metaN.json} to /verif/seeded/<ID>-N/
ID=$1
for p in /tmp/seed/$ID/SEED/patch*.diff; do
  [ -f "$p" ] || continue
  n=$(basename $p .diff | sed 's/patch//')
  d=/verif/seeded/$ID-$n
  mkdir -p $d
  cp $p $d/patch.diff
  cp /tmp/seed/$ID/SEED/demo${n}_test.go $d/demo_test.go 2>/dev/null
  cp /tmp/seed/$ID/SEED/meta${n}.json $d/agent_meta.json 2>/dev/null
  echo imported $d
done
