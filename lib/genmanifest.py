#!/usr/bin/env python3
"""Regenerates /verif/MANIFEST.json from lib/checks.json (single source of truth for what is claimed)."""
import json, os
V = os.path.dirname(os.path.dirname(os.path.abspath(__file__)))
c = json.load(open(os.path.join(V, "lib", "checks.json")))
props = [json.loads(l)["id"] for l in open(os.path.join(V, "properties.jsonl")) if l.strip()]
na = c.get("not_applicable", {})
checks = []
for pid in props:
    if pid not in c["checks"]:
        continue
    k = c["checks"][pid]
    checks.append({
        "property_id": pid,
        "quick_cmd": "./check %s --tier quick" % pid,
        "thorough_cmd": "./check %s --tier thorough" % pid,
        "evidence_file": "/verif/evidence/%s.json" % pid,
        "replay_cmd_template": "./check %s --replay {path}" % pid,
        "engine": k.get("engine", ""),
        "level_claimed": {"category": k["level"], "text": k["text"], "design_ref": k.get("design_ref", "")},
        "level_note": k["note"],
        "technique": k["technique"],
    })
m = {
    "version": 1,
    "setup_cmd": "./check --setup",
    "hooks": {
        "guard": "verif",
        "enable": "no source hooks in /repo: checks build with `go test -c -tags verif -overlay <generated.json>`; the overlay adds harness files (//go:build verif) into the repository's packages, adds virtual packages under github.com/couchbase/sync_gateway/verifshim/, and for the *-shim variants replaces each source file of the package by a copy of the current working-tree file in which only the import lines for sync / sync/atomic are redirected to the shim",
        "baseline_off_cmd": "for m in $(cat /w/out/gomods.txt); do MF=$(cd /repo/$m && . /w/out/goenv.sh && gomodflag); (cd /repo/$m && go test $MF -json -vet=off -count=1 -timeout 25m ./...); done",
        "source_commits": [],
        "add_only": True,
    },
    "engines": c.get("engines", []),
    "checks": checks,
    "notes": c.get("notes", ""),
    "not_applicable": [{"property_id": p, "reason": na.get(p, "no check built yet in this round (work in progress; see DESIGN.md §7 build order)")} for p in props if p not in c["checks"]],
}
json.dump(m, open(os.path.join(V, "MANIFEST.json"), "w"), indent=1)
print("MANIFEST.json: %d checks, %d not claimed" % (len(checks), len(m["not_applicable"])))
