#!/usr/bin/env python3
"""Driver for /verif checks.

  check <ID> [--tier quick|thorough] [--replay FILE] [--shards N] [--budget S] [--keep]
  check --setup            build tools and warm the build cache for every variant
  check --list

For a property <ID> the driver
  1. regenerates the build overlay from /repo's *current working tree* (harness files added to the package,
     virtual verifshim packages, and -- for "shim" variants -- import-rewritten copies of the package's
     sources made by tools/shimgen),
  2. builds the package's test binary with `go test -c -tags verif -overlay ...` (cwd /repo),
  3. runs N worker processes of that binary (one shard each) under a timeout and an address-space limit,
  4. merges the shard reports, re-executes every new violation from its replay case (it must reproduce
     every time, otherwise it is classified nondeterministic-harness and is not reported),
  5. writes /verif/evidence/<ID>.json, prints VIOLATION / KNOWN-FINDING lines, and sets the exit code:
     0 held on everything explored, 1 violation, 2 engine/build error (no VIOLATION line).
"""
import argparse, glob, hashlib, json, os, re, resource, shutil, subprocess, sys, time
from concurrent.futures import ThreadPoolExecutor

VERIF = os.path.dirname(os.path.dirname(os.path.abspath(__file__)))
REPO = os.environ.get("VERIF_REPO", "/repo")
WORK = os.path.join(VERIF, ".work")
MODPATH = "github.com/couchbase/sync_gateway"
TOOLCHAIN = "/root/go/pkg/mod/golang.org/toolchain@v0.0.1-go1.26.6.linux-amd64/bin/go"
NCPU = os.cpu_count() or 4


def goenv():
    env = dict(os.environ)
    env["GOFLAGS"] = "-mod=mod"
    env["GOPROXY"] = "off"
    env.pop("GOSUMDB", None)
    if os.path.exists(TOOLCHAIN):
        env["GOTOOLCHAIN"] = "local"
        env["PATH"] = os.path.dirname(TOOLCHAIN) + ":" + env.get("PATH", "")
    return env


def gobin():
    return TOOLCHAIN if os.path.exists(TOOLCHAIN) else "go"


def load_checks():
    with open(os.path.join(VERIF, "lib", "checks.json")) as f:
        return json.load(f)


def die(msg, code=2):
    print("ENGINE-ERROR: " + msg, file=sys.stderr)
    sys.stdout.flush()
    sys.exit(code)


# ---------------------------------------------------------------- overlay / build

def build_shimgen():
    out = os.path.join(WORK, "bin", "shimgen")
    src = os.path.join(VERIF, "tools", "shimgen")
    os.makedirs(os.path.dirname(out), exist_ok=True)
    newest = max(os.path.getmtime(p) for p in glob.glob(src + "/*"))
    if os.path.exists(out) and os.path.getmtime(out) >= newest:
        return out
    env = goenv()
    env["GOFLAGS"] = ""
    r = subprocess.run([gobin(), "build", "-o", out, "."], cwd=src, env=env, capture_output=True, text=True)
    if r.returncode != 0:
        die("shimgen build failed:\n" + r.stdout + r.stderr)
    return out


def make_overlay(variant, vcfg, rundir):
    """Return path of overlay json for a build variant."""
    repl = {}
    # virtual shim packages
    for d in sorted(glob.glob(os.path.join(VERIF, "shim", "*"))):
        name = os.path.basename(d)
        for f in sorted(glob.glob(d + "/*.go")):
            repl[os.path.join(REPO, "verifshim", name, os.path.basename(f))] = f
    # harness files
    for pkg in vcfg["harness_pkgs"]:
        for f in sorted(glob.glob(os.path.join(VERIF, "harness", pkg, "*.go"))):
            repl[os.path.join(REPO, pkg, os.path.basename(f))] = f
    # import-rewritten copies of the current working tree
    for rw in vcfg.get("rewrite", []):
        sg = build_shimgen()
        outdir = os.path.join(rundir, "rw", variant, rw["pkg"])
        os.makedirs(outdir, exist_ok=True)
        cmd = [sg, "-src", os.path.join(REPO, rw["pkg"]), "-out", outdir, "-mod", MODPATH]
        if rw.get("sync"):
            cmd += ["-sync", rw["sync"]]
        if rw.get("atomic"):
            cmd += ["-atomic", ",".join(rw["atomic"])]
        if rw.get("time"):
            cmd += ["-time", ",".join(rw["time"])]
        r = subprocess.run(cmd, capture_output=True, text=True)
        if r.returncode != 0:
            die("shimgen failed:\n" + r.stdout + r.stderr)
        for line in r.stdout.splitlines():
            if line.startswith("MAP "):
                _, src, dst = line.split(" ", 2)
                repl[src] = dst
    p = os.path.join(rundir, "overlay-%s.json" % variant)
    with open(p, "w") as f:
        json.dump({"Replace": repl}, f, indent=0)
    return p


def build_variant(variant, checks, rundir, tag):
    vcfg = checks["variants"][variant]
    ov = make_overlay(variant, vcfg, rundir)
    out = os.path.join(WORK, "bin", "%s-%s-%d.test" % (variant, tag, os.getpid()))
    os.makedirs(os.path.dirname(out), exist_ok=True)
    cmd = [gobin(), "test", "-c", "-tags", "verif", "-vet=off", "-overlay", ov, "-o", out, "./" + vcfg["pkg"]]
    if vcfg.get("race"):
        cmd.insert(2, "-race")
    t0 = time.time()
    r = subprocess.run(cmd, cwd=REPO, env=goenv(), capture_output=True, text=True)
    if r.returncode != 0:
        die("build of variant %s failed (%s):\n%s%s" % (variant, " ".join(cmd), r.stdout[-6000:], r.stderr[-6000:]))
    return out, time.time() - t0


# ---------------------------------------------------------------- workers

def limit_as(gb):
    def f():
        try:
            resource.setrlimit(resource.RLIMIT_AS, (gb << 30, gb << 30))
        except Exception:
            pass
    return f


def run_worker(binary, pkgdir, test, shard, nshards, tier, seed, outdir, budget, gomaxprocs, replay, extra_env, hard_timeout, race=False):
    env = goenv()
    env.update({
        "VERIF_SHARD": "%d/%d" % (shard, nshards), "VERIF_TIER": tier, "VERIF_SEED": str(seed),
        "VERIF_OUT": outdir, "VERIF_BUDGET_S": str(budget), "SG_TEST_LOG_LEVEL": "none",
        "SG_TEST_BUCKET_POOL_SIZE": "8",
    })
    env["SG_TEST_BACKING_STORE"] = "rosmar"
    if gomaxprocs:
        env["GOMAXPROCS"] = str(gomaxprocs)
    if replay:
        env["VERIF_REPLAY"] = replay
    else:
        env.pop("VERIF_REPLAY", None)
    env.update(extra_env or {})
    log = os.path.join(outdir, "worker-%d.log" % shard)
    with open(log, "w") as lf:
        try:
            p = subprocess.run([binary, "-test.run", "^%s$" % test, "-test.timeout", "0", "-test.count", "1"],
                               cwd=pkgdir, env=env, stdout=lf, stderr=subprocess.STDOUT, timeout=hard_timeout,
                               preexec_fn=None if race else limit_as(24))  # the race runtime maps terabytes of address space
            rc = p.returncode
        except subprocess.TimeoutExpired:
            rc = -9
    return shard, rc, log


def race_reports(log):
    """Extract (fingerprint, detail) pairs from 'WARNING: DATA RACE' blocks of a worker log, and the number of
    reports that are about harness / shim state. A report is classified by its two access sites (for each of the two
    stacks, the first frame that lies in the repository): it counts against the code under test only when both sites
    are product code; a report with a site in the harness or the shims is a harness matter and is only counted."""
    out, seen, harness = [], set(), 0
    try:
        text = open(log, errors="replace").read()
    except Exception:
        return out, harness
    is_harness = lambda f: "verifshim" in f or re.search(r"/\w+\.\(?\*?(c\d\d|TestVerif|vdb\b|newVDB)", f) is not None
    for block in text.split("WARNING: DATA RACE")[1:]:
        block = block.split("==================")[0]
        stacks = re.split(r"\n\n", block)
        sites = []
        for st in stacks[:2]:
            funcs = re.findall(r"^  ([\w./()*\[\]-]+)\(\)\s*$", st, re.M)
            own = [f for f in funcs if "sync_gateway" in f]
            sites.append(own[0] if own else None)
        if len(sites) < 2 or any(x is None or is_harness(x) for x in sites):
            harness += 1
            continue
        fp = "+".join(sorted(f.split("/")[-1] for f in sites))
        if fp in seen:
            continue
        seen.add(fp)
        out.append((fp, "WARNING: DATA RACE" + block[:2500]))
    return out, harness


def run_part(part, binary, checks, tier, seed, rundir, idx, replay=None, shards_override=None, budget_override=None):
    vcfg = checks["variants"][part["variant"]]
    nshards = 1 if replay else (shards_override or part.get("shards", {}).get(tier, NCPU))
    budget = budget_override or part.get("budget_s", {}).get(tier, 150 if tier == "quick" else 1500)
    hard = budget * 2 + 300
    outdir = os.path.join(rundir, "part%d%s" % (idx, "-replay" if replay else ""))
    shutil.rmtree(outdir, ignore_errors=True)
    os.makedirs(outdir)
    pkgdir = os.path.join(REPO, vcfg["pkg"])
    par = min(nshards, part.get("parallel", NCPU))
    with ThreadPoolExecutor(max_workers=par) as ex:
        futs = [ex.submit(run_worker, binary, pkgdir, part["test"], s, nshards, tier, seed, outdir, budget,
                          part.get("gomaxprocs"), replay, part.get("env"), hard, bool(vcfg.get("race"))) for s in range(nshards)]
        results = [f.result() for f in futs]
    reports, errors = [], []
    for shard, rc, log in results:
        rp = os.path.join(outdir, "shard-%d.json" % shard)
        if vcfg.get("race"):
            # data races reported by the Go race detector in the free-running pass become violations; the test binary
            # exits non-zero because of them, which is not an engine error
            races, harness_races = race_reports(log)
            if (races or harness_races) and os.path.exists(rp):
                rep = json.load(open(rp))
                rep["violations"] = rep.get("violations") or []
                prop = rep.get("property", "")
                for fp, detail in races:
                    rep["violations"].append({"fingerprint": "%s/data-race/%s" % (prop, fp), "detail": detail, "replay": None})
                rep["counters"] = rep.get("counters") or {}
                rep["counters"]["race_reports"] = len(races)
                rep["counters"]["race_reports_about_harness_state_ignored"] = harness_races
                reports.append(rep)
                continue
        if rc != 0 or not os.path.exists(rp):
            tail = ""
            try:
                with open(log, errors="replace") as f:
                    tail = f.read()[-3000:]
            except Exception:
                pass
            errors.append("part %d (%s) shard %d: exit %s, report %s\n%s" % (idx, part["test"], shard, rc, "present" if os.path.exists(rp) else "missing", tail))
            if os.path.exists(rp):
                reports.append(json.load(open(rp)))
            continue
        reports.append(json.load(open(rp)))
    return reports, errors


# ---------------------------------------------------------------- merge / evidence

def merge(reports):
    m = {"counters": {}, "sets": {}, "samples": [], "violations": [], "exhaustive": True, "caps": [], "rules": [],
         "assumptions": [], "notes": {}, "wall_s": 0.0}
    seen = set()
    for r in reports:
        for k, v in (r.get("counters") or {}).items():
            if k.startswith("max_"):
                m["counters"][k] = max(m["counters"].get(k, 0), v)
            else:
                m["counters"][k] = m["counters"].get(k, 0) + v
        for k, v in (r.get("sets") or {}).items():
            m["sets"].setdefault(k, set()).update(v)
        for s in (r.get("samples") or []):
            if len(m["samples"]) < 12:
                m["samples"].append(s)
        for v in (r.get("violations") or []):
            if v["fingerprint"] not in seen:
                seen.add(v["fingerprint"])
                m["violations"].append(v)
        m["exhaustive"] = m["exhaustive"] and bool(r.get("exhaustive"))
        for c in (r.get("caps") or []):
            if c not in m["caps"]:
                m["caps"].append(c)
        if r.get("rule") and r["rule"] not in m["rules"]:
            m["rules"].append(r["rule"])
        for a in (r.get("assumptions") or []):
            if a not in m["assumptions"]:
                m["assumptions"].append(a)
        for k, v in (r.get("notes") or {}).items():
            m["notes"].setdefault(k, v)
        m["wall_s"] = max(m["wall_s"], r.get("wall_s", 0.0))
    return m


def load_known():
    p = os.path.join(VERIF, "known_findings.json")
    if not os.path.exists(p):
        return []
    return json.load(open(p)).get("findings", [])


def known_match(prop, fp, known):
    for k in known:
        if k.get("property") != prop:
            continue
        kf = k.get("fingerprint", "")
        if kf == fp:
            return k
    return None


def write_evidence(prop, ccfg, tier, seed, m, wall, nviol, extra):
    c = m["counters"]
    cov = {}
    cov["evaluations"] = int(c.get("evaluations", 0))
    if "nontrivial" in m["sets"]:
        cov["distinct_nontrivial"] = len(m["sets"]["nontrivial"])
    else:
        cov["distinct_nontrivial"] = int(c.get("distinct_nontrivial", 0))
    cov["rule"] = " | ".join(m["rules"])
    cov["samples"] = m["samples"]
    for k in ("states", "transitions", "traces_validated_against_impl"):
        if k in c:
            cov[k] = int(c[k])
    if "state_hashes" in m["sets"] and "states" in c:
        if not c.get("state_hash_overflow"):
            cov["states"] = len(m["sets"]["state_hashes"])  # union over shards: cross-shard duplicates merged
        else:
            cov["states_note"] = "sum over shards (per-shard dedup only; hash set overflowed)"
    cov["exhaustive"] = bool(m["exhaustive"]) and not extra.get("errors")
    if m["caps"]:
        cov["caps_hit"] = m["caps"]
    cov["counters"] = {k: v for k, v in sorted(c.items())}
    cov["distinct_sets"] = {k: len(v) for k, v in sorted(m["sets"].items())}
    cov["bounds"] = m["notes"]
    cov.update(extra.get("coverage", {}))
    ev = {
        "property_id": prop, "tier": tier, "seed": int(seed), "level": ccfg["level"],
        "coverage": cov, "assumptions": m["assumptions"] + ccfg.get("assumptions", []),
        "wall_s": round(wall, 2), "violations": nviol,
    }
    evdir = os.environ.get("VERIF_EVIDENCE_DIR") or os.path.join(VERIF, "evidence")
    os.makedirs(evdir, exist_ok=True)
    p = os.path.join(evdir, prop + ".json")
    with open(p + ".tmp", "w") as f:
        json.dump(ev, f, indent=1, sort_keys=False, default=str)
    os.replace(p + ".tmp", p)
    return p


# ---------------------------------------------------------------- main

def do_check(prop, tier, replay, shards_override, budget_override, keep):
    checks = load_checks()
    if prop not in checks["checks"]:
        die("unknown property " + prop)
    ccfg = checks["checks"][prop]
    seed = int(os.environ.get("VERIF_SEED", "0") or 0)
    t0 = time.time()
    rundir = os.path.join(WORK, "run-%s-%d" % (prop, os.getpid()))
    shutil.rmtree(rundir, ignore_errors=True)
    os.makedirs(rundir)
    binaries = {}
    build_s = 0.0
    try:
        parts = ccfg["parts"]
        replay_part = None
        if replay:
            rj = json.load(open(replay))
            replay_part = rj.get("part", 0)
        for p in parts:
            if p["variant"] not in binaries:
                binaries[p["variant"]], dt = build_variant(p["variant"], checks, rundir, prop)
                build_s += dt
        all_reports, all_errors = [], []
        part_of_fp = {}
        for i, p in enumerate(parts):
            if replay and i != replay_part:
                continue
            if p.get("tiers") and tier not in p["tiers"] and not replay:
                continue
            reps, errs = run_part(p, binaries[p["variant"]], checks, tier, seed, rundir, i, replay=replay,
                                  shards_override=shards_override, budget_override=budget_override)
            for r in reps:
                for v in r.get("violations") or []:
                    part_of_fp.setdefault(v["fingerprint"], i)
            all_reports += reps
            all_errors += errs
        m = merge(all_reports)
        known = load_known()
        new, knownhits, flaky = [], [], []
        os.makedirs(os.path.join(VERIF, "replays", prop), exist_ok=True)
        for v in m["violations"]:
            k = known_match(prop, v["fingerprint"], known)
            h = hashlib.sha1(v["fingerprint"].encode()).hexdigest()[:12]
            rp = os.path.join(VERIF, "replays", prop, h + ".json")
            with open(rp, "w") as f:
                json.dump({"property": prop, "part": part_of_fp.get(v["fingerprint"], 0), "fingerprint": v["fingerprint"],
                           "detail": v["detail"], "replay": v["replay"], "tier": tier}, f, indent=1)
            if k:
                knownhits.append((v, k))
                continue
            if replay:
                new.append((v, rp))
                continue
            # confirm: must reproduce from its replay case, twice
            ok = True
            if v.get("replay") is not None and not ccfg.get("no_reconfirm"):
                for _ in range(2):
                    pi = part_of_fp.get(v["fingerprint"], 0)
                    reps, errs = run_part(parts[pi], binaries[parts[pi]["variant"]], checks, tier, seed, rundir, pi, replay=rp)
                    fps = {x["fingerprint"] for r in reps for x in (r.get("violations") or [])}
                    if errs or v["fingerprint"] not in fps:
                        ok = False
                        break
            if ok:
                new.append((v, rp))
            else:
                flaky.append(v)
        # directed re-execution of every listed known finding this run did not reach (e.g. it lies deeper than the
        # quick bound): the finding is reported as KNOWN-FINDING only if it reproduces on the current tree.
        stale = []
        if not replay:
            hit = {v["fingerprint"] for v, _ in knownhits}
            for k in known:
                if k.get("property") != prop or k.get("fingerprint") in hit or k.get("replay") is None:
                    continue
                h = hashlib.sha1(k["fingerprint"].encode()).hexdigest()[:12]
                rp = os.path.join(VERIF, "replays", prop, h + ".json")
                pi = k.get("part", 0)
                with open(rp, "w") as f:
                    json.dump({"property": prop, "part": pi, "fingerprint": k["fingerprint"], "detail": k.get("what", ""),
                               "replay": k["replay"], "tier": tier}, f, indent=1)
                reps, errs = run_part(parts[pi], binaries[parts[pi]["variant"]], checks, tier, seed, rundir, pi, replay=rp)
                got = [x for r in reps for x in (r.get("violations") or [])]
                fps = {x["fingerprint"] for x in got}
                if k["fingerprint"] in fps:
                    knownhits.append(({"fingerprint": k["fingerprint"]}, k))
                else:
                    stale.append(k["fingerprint"])
                for x in got:  # anything else the directed run shows is a new violation
                    if x["fingerprint"] != k["fingerprint"] and not known_match(prop, x["fingerprint"], known) and x["fingerprint"] not in {v["fingerprint"] for v, _ in new}:
                        h2 = hashlib.sha1(x["fingerprint"].encode()).hexdigest()[:12]
                        rp2 = os.path.join(VERIF, "replays", prop, h2 + ".json")
                        with open(rp2, "w") as f:
                            json.dump({"property": prop, "part": pi, "fingerprint": x["fingerprint"], "detail": x["detail"], "replay": x["replay"], "tier": tier}, f, indent=1)
                        new.append((x, rp2))
        extra = {"coverage": {"build_s": round(build_s, 1)}}
        if stale:
            extra["coverage"]["known_findings_not_reproduced"] = stale
        if flaky:
            m["exhaustive"] = False
            extra["coverage"]["nondeterministic_harness"] = [v["fingerprint"] for v in flaky]
        if all_errors:
            extra["errors"] = all_errors
            extra["coverage"]["engine_errors"] = [e[:500] for e in all_errors]
        if knownhits:
            extra["coverage"]["known_findings_reproduced"] = [v["fingerprint"] for v, _ in knownhits]
        wall = time.time() - t0
        if not replay:
            write_evidence(prop, ccfg, tier, seed, m, wall, len(new), extra)
        else:
            for lf in sorted(glob.glob(os.path.join(rundir, "part*-replay", "worker-*.log"))):
                with open(lf, errors="replace") as f:
                    for line in f:
                        if line.startswith("REPLAY-") or line.startswith("  "):
                            sys.stdout.write(line)
        for v, k in knownhits:
            print("KNOWN-FINDING: property=%s %s [%s]" % (prop, k.get("what", ""), v["fingerprint"]))
        for v in flaky:
            print("NOTE: not reported (did not reproduce from its replay case, classified nondeterministic-harness): %s" % v["fingerprint"])
        for v, rp in new:
            print("VIOLATION property=%s replay=%s" % (prop, rp))
            print("  fingerprint: %s" % v["fingerprint"])
            print("  detail: %s" % v["detail"][:1500])
        c = m["counters"]
        print("SUMMARY property=%s tier=%s evaluations=%d states=%d transitions=%d exhaustive=%s caps=%s wall=%.1fs build=%.1fs violations=%d known=%d" % (
            prop, tier, c.get("evaluations", 0), c.get("states", 0), c.get("transitions", 0), m["exhaustive"] and not all_errors,
            m["caps"], wall, build_s, len(new), len(knownhits)))
        sys.stdout.flush()
        if new:
            return 1
        if all_errors:
            for e in all_errors[:3]:
                print("ENGINE-ERROR: " + e, file=sys.stderr)
            return 2
        return 0
    finally:
        if not keep:
            shutil.rmtree(rundir, ignore_errors=True)
            for b in binaries.values():
                try:
                    os.remove(b)
                except OSError:
                    pass


def do_setup():
    checks = load_checks()
    build_shimgen()
    rundir = os.path.join(WORK, "setup")
    shutil.rmtree(rundir, ignore_errors=True)
    os.makedirs(rundir)
    used = []
    for c in checks["checks"].values():
        for p in c["parts"]:
            if p["variant"] not in used:
                used.append(p["variant"])
    for v in used:
        b, dt = build_variant(v, checks, rundir, "setup")
        print("setup: built variant %s in %.1fs" % (v, dt))
        os.remove(b)
    shutil.rmtree(rundir, ignore_errors=True)
    return 0


def main():
    ap = argparse.ArgumentParser()
    ap.add_argument("prop", nargs="?")
    ap.add_argument("--tier", default=os.environ.get("VERIF_TIER") or "quick", choices=["quick", "thorough"])
    ap.add_argument("--replay")
    ap.add_argument("--shards", type=int)
    ap.add_argument("--budget", type=int)
    ap.add_argument("--keep", action="store_true")
    ap.add_argument("--setup", action="store_true")
    ap.add_argument("--list", action="store_true")
    a = ap.parse_args()
    if a.setup:
        sys.exit(do_setup())
    if a.list:
        for k in load_checks()["checks"]:
            print(k)
        return
    if not a.prop:
        ap.error("property id required")
    if a.replay:
        a.replay = os.path.abspath(a.replay)
    sys.exit(do_check(a.prop, a.tier, a.replay, a.shards, a.budget, a.keep))


if __name__ == "__main__":
    main()
