// Package vstore is the stepping datastore seam: a thin wrapper around a base.Bucket and its data stores in
// which every key-value operation first calls a hook. The hook (a) is a scheduling point for vsched when
// the caller is a controlled thread, (b) may answer with an injected fault chosen by a plan (error before
// the operation is applied, compare-and-swap mismatch, timeout before / after the operation is applied,
// crash of this handle), and (c) appends to an operation log that oracles read.
//
// WriteUpdateWithXattrs and Update are get/callback/write loops inside the underlying store. They are NOT
// re-implemented: the wrapper raises a point before the loop and wraps the callback so that a second point
// (and the write-fault plan) sits between the callback and the store's own compare-and-swap write. Get and
// callback therefore run atomically, which is sound because the callback reads shared state only through
// operations that are themselves hooked.
package vstore

import (
	"context"
	"errors"
	"fmt"
	"strings"
	"sync"

	sgbucket "github.com/couchbase/sg-bucket"
	"github.com/couchbase/sync_gateway/base"
	"github.com/couchbase/sync_gateway/verifshim/vsched"
)

type Injection int

const (
	None          Injection = iota
	ErrBefore               // generic storage error, operation not applied
	CasMismatch             // compare-and-swap mismatch, not applied (only meaningful for writes)
	TimeoutBefore           // timeout error, operation not applied
	TimeoutAfter            // operation applied, caller sees a timeout error
)

func (i Injection) String() string {
	return [...]string{"none", "error", "cas-mismatch", "timeout-not-applied", "timeout-applied"}[i]
}

var ErrInjected = errors.New("vstore: injected storage error")

type OpRecord struct {
	Seq     int    `json:"seq"`
	Thread  int    `json:"thread"`
	Gid     int64  `json:"-"`
	Op      string `json:"op"`
	Key     string `json:"key"`
	Write   bool   `json:"write"`
	Inject  string `json:"inject,omitempty"`
	Err     string `json:"err,omitempty"`
	Applied bool   `json:"applied"`
	Cas     uint64 `json:"-"`
}

type Hooks struct {
	mu       sync.Mutex
	Enabled  bool                                                // when false the wrapper is a pure pass-through (set-up / read-back phases)
	Schedule bool                                                // raise vsched points
	Plan     func(seq int, op, key string, write bool) Injection // fault plan, called with the index of the operation among hooked operations
	Select   func(op, key string) bool                           // which operations are hooked (nil = all)
	Log      []OpRecord
	Crashed  bool
	nextSeq  int
}

func (h *Hooks) Reset() {
	h.mu.Lock()
	h.Log = nil
	h.nextSeq = 0
	h.Crashed = false
	h.mu.Unlock()
}

func (h *Hooks) Snapshot() []OpRecord {
	h.mu.Lock()
	defer h.mu.Unlock()
	return append([]OpRecord{}, h.Log...)
}

type opCtx struct {
	h   *Hooks
	idx int
	inj Injection
	on  bool
}

func (h *Hooks) before(op, key string, write bool) opCtx {
	if h == nil || !h.Enabled {
		return opCtx{}
	}
	if h.Select != nil && !h.Select(op, key) {
		return opCtx{}
	}
	if h.Schedule {
		vsched.Point(vsched.KStore, op+":"+key)
	}
	h.mu.Lock()
	seq := h.nextSeq
	h.nextSeq++
	crashed := h.Crashed
	h.mu.Unlock()
	inj := None
	if crashed {
		inj = ErrBefore
	} else if h.Plan != nil {
		inj = h.Plan(seq, op, key, write)
	}
	if inj == CasMismatch && !write {
		inj = None
	}
	h.mu.Lock()
	h.Log = append(h.Log, OpRecord{Seq: seq, Thread: vsched.ThreadID(), Gid: vsched.GoID(), Op: op, Key: key, Write: write})
	idx := len(h.Log) - 1
	if inj != None {
		h.Log[idx].Inject = inj.String()
	}
	h.mu.Unlock()
	return opCtx{h: h, idx: idx, inj: inj, on: true}
}

// pre returns the error to return without applying the operation, if any.
func (c opCtx) pre() error {
	switch c.inj {
	case ErrBefore:
		return c.fin(ErrInjected, false)
	case CasMismatch:
		return c.fin(sgbucket.CasMismatchErr{Expected: 1, Actual: 2}, false)
	case TimeoutBefore:
		return c.fin(fmt.Errorf("vstore: injected timeout (not applied): %w", base.ErrTimeout), false)
	}
	return nil
}

// post is called with the real result; it may replace a success by a timeout.
func (c opCtx) post(err error) error {
	if !c.on {
		return err
	}
	if c.inj == TimeoutAfter && err == nil {
		return c.fin(fmt.Errorf("vstore: injected timeout (applied): %w", base.ErrTimeout), true)
	}
	return c.fin(err, err == nil)
}

func (c opCtx) fin(err error, applied bool) error {
	if c.on {
		c.h.mu.Lock()
		if err != nil {
			c.h.Log[c.idx].Err = err.Error()
		}
		c.h.Log[c.idx].Applied = applied
		c.h.mu.Unlock()
	}
	return err
}

// ---------------------------------------------------------------- bucket

type Bucket struct {
	base.Bucket
	H      *Hooks
	mu     sync.Mutex
	delMu  sync.Mutex // serialises Delete's exists-then-delete adaptation
	stores map[string]*DataStore
}

var (
	_ base.WrappingBucket    = &Bucket{}
	_ base.WrappingDatastore = &DataStore{}
	_ sgbucket.ViewStore     = &DataStore{}
)

// Wrap returns a hooked bucket; hooks start disabled.
func Wrap(b base.Bucket) *Bucket {
	return &Bucket{Bucket: b, H: &Hooks{}, stores: map[string]*DataStore{}}
}

func (b *Bucket) GetUnderlyingBucket() base.Bucket { return b.Bucket }

func (b *Bucket) wrapDS(ds sgbucket.DataStore) sgbucket.DataStore {
	b.mu.Lock()
	defer b.mu.Unlock()
	name := ds.GetName()
	if w, ok := b.stores[name]; ok {
		return w
	}
	w := &DataStore{DataStore: ds, b: b}
	b.stores[name] = w
	return w
}

func (b *Bucket) DefaultDataStore(ctx context.Context) sgbucket.DataStore {
	return b.wrapDS(b.Bucket.DefaultDataStore(ctx))
}

func (b *Bucket) NamedDataStore(ctx context.Context, name sgbucket.DataStoreName) (sgbucket.DataStore, error) {
	ds, err := b.Bucket.NamedDataStore(ctx, name)
	if err != nil {
		return nil, err
	}
	return b.wrapDS(ds), nil
}

func (b *Bucket) CreateDataStore(ctx context.Context, name sgbucket.DataStoreName) error {
	d, ok := base.GetBaseBucket(b.Bucket).(sgbucket.DynamicDataStoreBucket)
	if !ok {
		return fmt.Errorf("bucket %T doesn't support dynamic collection creation", b.Bucket)
	}
	return d.CreateDataStore(ctx, name)
}

func (b *Bucket) DropDataStore(ctx context.Context, name sgbucket.DataStoreName) error {
	d, ok := base.GetBaseBucket(b.Bucket).(sgbucket.DynamicDataStoreBucket)
	if !ok {
		return fmt.Errorf("bucket %T doesn't support dynamic collection creation", b.Bucket)
	}
	return d.DropDataStore(ctx, name)
}

func (b *Bucket) CloseAndDelete(ctx context.Context) error {
	if d, ok := b.Bucket.(sgbucket.DeleteableStore); ok {
		return d.CloseAndDelete(ctx)
	}
	return nil
}

// ---------------------------------------------------------------- datastore

type DataStore struct {
	sgbucket.DataStore
	b *Bucket
}

func (d *DataStore) GetUnderlyingDataStore() base.DataStore { return d.DataStore }

func (d *DataStore) vs() sgbucket.ViewStore { return d.DataStore.(sgbucket.ViewStore) }
func (d *DataStore) GetDDoc(ctx context.Context, n string) (sgbucket.DesignDoc, error) {
	return d.vs().GetDDoc(ctx, n)
}
func (d *DataStore) GetDDocs(ctx context.Context) (map[string]sgbucket.DesignDoc, error) {
	return d.vs().GetDDocs(ctx)
}
func (d *DataStore) PutDDoc(ctx context.Context, n string, v *sgbucket.DesignDoc) error {
	return d.vs().PutDDoc(ctx, n, v)
}
func (d *DataStore) DeleteDDoc(ctx context.Context, n string) error { return d.vs().DeleteDDoc(ctx, n) }
func (d *DataStore) View(ctx context.Context, ddoc, name string, params map[string]interface{}) (sgbucket.ViewResult, error) {
	return d.vs().View(ctx, ddoc, name, params)
}
func (d *DataStore) ViewQuery(ctx context.Context, ddoc, name string, params map[string]interface{}) (sgbucket.QueryResultIterator, error) {
	return d.vs().ViewQuery(ctx, ddoc, name, params)
}
func (d *DataStore) Scan(ctx context.Context, scanType sgbucket.ScanType, opts sgbucket.ScanOptions) (sgbucket.ScanResultIterator, error) {
	rs, ok := d.DataStore.(sgbucket.RangeScanStore)
	if !ok {
		return nil, errors.New("range scan not supported")
	}
	return rs.Scan(ctx, scanType, opts)
}

func (d *DataStore) h() *Hooks { return d.b.H }

// ---- KVStore

func (d *DataStore) Get(ctx context.Context, k string, rv interface{}) (uint64, error) {
	c := d.h().before("Get", k, false)
	if err := c.pre(); err != nil {
		return 0, err
	}
	cas, err := d.DataStore.Get(ctx, k, rv)
	if err = c.post(err); err != nil {
		return 0, err
	}
	return cas, nil
}

func (d *DataStore) GetRaw(ctx context.Context, k string) ([]byte, uint64, error) {
	c := d.h().before("GetRaw", k, false)
	if err := c.pre(); err != nil {
		return nil, 0, err
	}
	v, cas, err := d.DataStore.GetRaw(ctx, k)
	if err = c.post(err); err != nil {
		return nil, 0, err
	}
	return v, cas, nil
}

func (d *DataStore) GetAndTouchRaw(ctx context.Context, k string, exp uint32) ([]byte, uint64, error) {
	c := d.h().before("GetAndTouchRaw", k, true)
	if err := c.pre(); err != nil {
		return nil, 0, err
	}
	v, cas, err := d.DataStore.GetAndTouchRaw(ctx, k, exp)
	if err = c.post(err); err != nil {
		return nil, 0, err
	}
	return v, cas, nil
}

func (d *DataStore) Touch(ctx context.Context, k string, exp uint32) (uint64, error) {
	c := d.h().before("Touch", k, true)
	if err := c.pre(); err != nil {
		return 0, err
	}
	cas, err := d.DataStore.Touch(ctx, k, exp)
	if err = c.post(err); err != nil {
		return 0, err
	}
	return cas, nil
}

func (d *DataStore) Add(ctx context.Context, k string, exp uint32, v interface{}) (bool, error) {
	c := d.h().before("Add", k, true)
	if err := c.pre(); err != nil {
		return false, err
	}
	added, err := d.DataStore.Add(ctx, k, exp, v)
	if err = c.post(err); err != nil {
		return false, err
	}
	return added, nil
}

func (d *DataStore) AddRaw(ctx context.Context, k string, exp uint32, v []byte) (bool, error) {
	c := d.h().before("AddRaw", k, true)
	if err := c.pre(); err != nil {
		return false, err
	}
	added, err := d.DataStore.AddRaw(ctx, k, exp, v)
	if err = c.post(err); err != nil {
		return false, err
	}
	return added, nil
}

func (d *DataStore) Set(ctx context.Context, k string, exp uint32, opts *sgbucket.UpsertOptions, v interface{}) error {
	c := d.h().before("Set", k, true)
	if err := c.pre(); err != nil {
		return err
	}
	return c.post(d.DataStore.Set(ctx, k, exp, opts, v))
}

func (d *DataStore) SetRaw(ctx context.Context, k string, exp uint32, opts *sgbucket.UpsertOptions, v []byte) error {
	c := d.h().before("SetRaw", k, true)
	if err := c.pre(); err != nil {
		return err
	}
	return c.post(d.DataStore.SetRaw(ctx, k, exp, opts, v))
}

func (d *DataStore) WriteCas(ctx context.Context, k string, exp uint32, cas uint64, v interface{}, opt sgbucket.WriteOptions) (uint64, error) {
	c := d.h().before("WriteCas", k, true)
	if err := c.pre(); err != nil {
		return 0, err
	}
	casOut, err := d.DataStore.WriteCas(ctx, k, exp, cas, v, opt)
	if err = c.post(err); err != nil {
		return 0, err
	}
	return casOut, nil
}

func (d *DataStore) Delete(ctx context.Context, k string) error {
	c := d.h().before("Delete", k, true)
	if err := c.pre(); err != nil {
		return err
	}
	if c.on {
		// Store-model adaptation: rosmar happily "deletes" a document that is already a tombstone, Couchbase Server
		// answers key-not-found. Code under test relies on the latter (e.g. one-time session consumption), so the
		// seam answers like the server. The check and the delete are not separated by a scheduling point.
		// (and deletes are serialised, so that the pair is atomic in free-running executions as well)
		d.b.delMu.Lock()
		defer d.b.delMu.Unlock()
		if exists, err := d.DataStore.Exists(ctx, k); err == nil && !exists {
			return c.post(sgbucket.MissingError{Key: k})
		}
	}
	return c.post(d.DataStore.Delete(ctx, k))
}

func (d *DataStore) Remove(ctx context.Context, k string, cas uint64) (uint64, error) {
	c := d.h().before("Remove", k, true)
	if err := c.pre(); err != nil {
		return 0, err
	}
	casOut, err := d.DataStore.Remove(ctx, k, cas)
	if err = c.post(err); err != nil {
		return 0, err
	}
	return casOut, nil
}

func (d *DataStore) Incr(ctx context.Context, k string, amt, def uint64, exp uint32) (uint64, error) {
	c := d.h().before("Incr", k, amt != 0)
	if err := c.pre(); err != nil {
		return 0, err
	}
	v, err := d.DataStore.Incr(ctx, k, amt, def, exp)
	if err = c.post(err); err != nil {
		return 0, err
	}
	return v, nil
}

func (d *DataStore) GetExpiry(ctx context.Context, k string) (uint32, error) {
	c := d.h().before("GetExpiry", k, false)
	if err := c.pre(); err != nil {
		return 0, err
	}
	v, err := d.DataStore.GetExpiry(ctx, k)
	if err = c.post(err); err != nil {
		return 0, err
	}
	return v, nil
}

func (d *DataStore) Exists(ctx context.Context, k string) (bool, error) {
	c := d.h().before("Exists", k, false)
	if err := c.pre(); err != nil {
		return false, err
	}
	v, err := d.DataStore.Exists(ctx, k)
	if err = c.post(err); err != nil {
		return false, err
	}
	return v, nil
}

// Update: point before the loop's read; second point + write-fault plan between callback and the store's CAS write.
func (d *DataStore) Update(ctx context.Context, k string, exp uint32, callback sgbucket.UpdateFunc) (uint64, error) {
	h := d.h()
	if h == nil || !h.Enabled || (h.Select != nil && !h.Select("Update", k)) {
		return d.DataStore.Update(ctx, k, exp, callback)
	}
	c0 := h.before("Update.read", k, false)
	if err := c0.pre(); err != nil {
		return 0, err
	}
	c0.fin(nil, true)
	var last opCtx
	var lastSet bool
	wrapped := func(current []byte) ([]byte, *uint32, bool, error) {
		if lastSet { // previous attempt's write lost its CAS race inside the store
			last.fin(errors.New("cas retry"), false)
			lastSet = false
		}
		updated, newExp, isDelete, err := callback(current)
		if err != nil {
			return updated, newExp, isDelete, err
		}
		if updated == nil && newExp == nil && !isDelete {
			return updated, newExp, isDelete, err // cancelled by the callback: no write
		}
		c := h.before("Update.write", k, true)
		switch c.inj {
		case ErrBefore, TimeoutBefore:
			return nil, nil, false, c.pre()
		case CasMismatch:
			c.fin(sgbucket.CasMismatchErr{Expected: 1, Actual: 2}, false)
			return nil, nil, false, sgbucket.ErrCasFailureShouldRetry
		}
		last, lastSet = c, true
		return updated, newExp, isDelete, nil
	}
	cas, err := d.DataStore.Update(ctx, k, exp, wrapped)
	if lastSet {
		if e2 := last.post(err); e2 != err {
			return 0, e2
		}
	}
	return cas, err
}

// ---- SubdocStore

func (d *DataStore) SubdocInsert(ctx context.Context, k string, path string, cas uint64, value interface{}) error {
	c := d.h().before("SubdocInsert", k, true)
	if err := c.pre(); err != nil {
		return err
	}
	return c.post(d.DataStore.SubdocInsert(ctx, k, path, cas, value))
}

func (d *DataStore) GetSubDocRaw(ctx context.Context, k string, path string) ([]byte, uint64, error) {
	c := d.h().before("GetSubDocRaw", k, false)
	if err := c.pre(); err != nil {
		return nil, 0, err
	}
	v, cas, err := d.DataStore.GetSubDocRaw(ctx, k, path)
	if err = c.post(err); err != nil {
		return nil, 0, err
	}
	return v, cas, nil
}

func (d *DataStore) WriteSubDoc(ctx context.Context, k string, path string, cas uint64, value []byte) (uint64, error) {
	c := d.h().before("WriteSubDoc", k, true)
	if err := c.pre(); err != nil {
		return 0, err
	}
	casOut, err := d.DataStore.WriteSubDoc(ctx, k, path, cas, value)
	if err = c.post(err); err != nil {
		return 0, err
	}
	return casOut, nil
}

// ---- XattrStore

func (d *DataStore) WriteWithXattrs(ctx context.Context, k string, exp uint32, cas uint64, value []byte, xv map[string][]byte, xd []string, opts *sgbucket.MutateInOptions) (uint64, error) {
	c := d.h().before("WriteWithXattrs", k, true)
	if err := c.pre(); err != nil {
		return 0, err
	}
	casOut, err := d.DataStore.WriteWithXattrs(ctx, k, exp, cas, value, xv, xd, opts)
	if err = c.post(err); err != nil {
		return 0, err
	}
	return casOut, nil
}

func (d *DataStore) WriteTombstoneWithXattrs(ctx context.Context, k string, exp uint32, cas uint64, xv map[string][]byte, xd []string, deleteBody bool, opts *sgbucket.MutateInOptions) (uint64, error) {
	c := d.h().before("WriteTombstoneWithXattrs", k, true)
	if err := c.pre(); err != nil {
		return 0, err
	}
	casOut, err := d.DataStore.WriteTombstoneWithXattrs(ctx, k, exp, cas, xv, xd, deleteBody, opts)
	if err = c.post(err); err != nil {
		return 0, err
	}
	return casOut, nil
}

func (d *DataStore) WriteResurrectionWithXattrs(ctx context.Context, k string, exp uint32, body []byte, xv map[string][]byte, opts *sgbucket.MutateInOptions) (uint64, error) {
	c := d.h().before("WriteResurrectionWithXattrs", k, true)
	if err := c.pre(); err != nil {
		return 0, err
	}
	casOut, err := d.DataStore.WriteResurrectionWithXattrs(ctx, k, exp, body, xv, opts)
	if err = c.post(err); err != nil {
		return 0, err
	}
	return casOut, nil
}

func (d *DataStore) SetXattrs(ctx context.Context, k string, xv map[string][]byte) (uint64, error) {
	c := d.h().before("SetXattrs", k, true)
	if err := c.pre(); err != nil {
		return 0, err
	}
	casOut, err := d.DataStore.SetXattrs(ctx, k, xv)
	if err = c.post(err); err != nil {
		return 0, err
	}
	return casOut, nil
}

func (d *DataStore) RemoveXattrs(ctx context.Context, k string, xattrKeys []string, cas uint64) error {
	c := d.h().before("RemoveXattrs", k, true)
	if err := c.pre(); err != nil {
		return err
	}
	return c.post(d.DataStore.RemoveXattrs(ctx, k, xattrKeys, cas))
}

func (d *DataStore) DeleteSubDocPaths(ctx context.Context, k string, paths ...string) error {
	c := d.h().before("DeleteSubDocPaths", k, true)
	if err := c.pre(); err != nil {
		return err
	}
	return c.post(d.DataStore.DeleteSubDocPaths(ctx, k, paths...))
}

func (d *DataStore) GetXattrs(ctx context.Context, k string, xattrKeys []string) (map[string][]byte, uint64, error) {
	c := d.h().before("GetXattrs", k, false)
	if err := c.pre(); err != nil {
		return nil, 0, err
	}
	x, cas, err := d.DataStore.GetXattrs(ctx, k, xattrKeys)
	if err = c.post(err); err != nil {
		return nil, 0, err
	}
	return x, cas, nil
}

func (d *DataStore) GetWithXattrs(ctx context.Context, k string, xattrKeys []string) ([]byte, map[string][]byte, uint64, error) {
	c := d.h().before("GetWithXattrs", k, false)
	if err := c.pre(); err != nil {
		return nil, nil, 0, err
	}
	v, x, cas, err := d.DataStore.GetWithXattrs(ctx, k, xattrKeys)
	if e2 := c.post(err); e2 != err {
		return nil, nil, 0, e2
	}
	return v, x, cas, err
}

func (d *DataStore) DeleteWithXattrs(ctx context.Context, k string, xattrKeys []string) error {
	c := d.h().before("DeleteWithXattrs", k, true)
	if err := c.pre(); err != nil {
		return err
	}
	return c.post(d.DataStore.DeleteWithXattrs(ctx, k, xattrKeys))
}

func (d *DataStore) UpdateXattrs(ctx context.Context, k string, exp uint32, cas uint64, xv map[string][]byte, opts *sgbucket.MutateInOptions) (uint64, error) {
	c := d.h().before("UpdateXattrs", k, true)
	if err := c.pre(); err != nil {
		return 0, err
	}
	casOut, err := d.DataStore.UpdateXattrs(ctx, k, exp, cas, xv, opts)
	if err = c.post(err); err != nil {
		return 0, err
	}
	return casOut, nil
}

// WriteUpdateWithXattrs: see the package comment.
func (d *DataStore) WriteUpdateWithXattrs(ctx context.Context, k string, xattrKeys []string, exp uint32, previous *sgbucket.BucketDocument, opts *sgbucket.MutateInOptions, callback sgbucket.WriteUpdateWithXattrsFunc) (uint64, error) {
	h := d.h()
	if h == nil || !h.Enabled || (h.Select != nil && !h.Select("WriteUpdateWithXattrs", k)) {
		return d.DataStore.WriteUpdateWithXattrs(ctx, k, xattrKeys, exp, previous, opts, callback)
	}
	c0 := h.before("WriteUpdateWithXattrs.read", k, false)
	if err := c0.pre(); err != nil {
		return 0, err
	}
	c0.fin(nil, true)
	var last opCtx
	var lastSet bool
	wrapped := func(doc []byte, xattrs map[string][]byte, cas uint64) (sgbucket.UpdatedDoc, error) {
		if lastSet { // previous attempt's write lost its CAS race inside the store; the store re-read the document
			last.fin(errors.New("cas retry"), false)
			lastSet = false
		}
		if doc != nil && len(doc) == 0 {
			// Store-model adaptation: Couchbase Server hands the update callback a nil body for a tombstone
			// (base.Collection.WriteUpdateWithXattrs: wasServerTombstone = value == nil); rosmar hands it an empty, non-nil
			// slice, which the code under test reads as "a document with an empty body".
			doc = nil
		}
		upd, err := callback(doc, xattrs, cas)
		if err != nil {
			return upd, err
		}
		c := h.before("WriteUpdateWithXattrs.write", k, true)
		switch c.inj {
		case ErrBefore, TimeoutBefore:
			return sgbucket.UpdatedDoc{}, c.pre()
		case CasMismatch:
			c.fin(sgbucket.CasMismatchErr{Expected: 1, Actual: 2}, false)
			return sgbucket.UpdatedDoc{}, sgbucket.ErrCasFailureShouldRetry
		}
		last, lastSet = c, true
		return upd, nil
	}
	casOut, err := d.DataStore.WriteUpdateWithXattrs(ctx, k, xattrKeys, exp, previous, opts, wrapped)
	for isRosmarTombstoneCasArtifact(err) {
		// Store-model adaptation. rosmar evaluates "delete the body of a document that is already a tombstone"
		// before it compares the CAS, and reports it as a missing-key error, so its update loop gives up. The
		// caller only asks to delete a body when the snapshot it read had one, so the document was tombstoned by
		// someone else after that read: on Couchbase Server this is a CAS mismatch, and the production update
		// loop (base.Collection.WriteUpdateWithXattrs) retries on both CAS mismatch and key-not-found. Re-enter the
		// loop so that the caller sees the retry it would see in production.
		if lastSet {
			last.fin(errors.New("cas retry (tombstoned concurrently)"), false)
			lastSet = false
		}
		casOut, err = d.DataStore.WriteUpdateWithXattrs(ctx, k, xattrKeys, exp, nil, opts, wrapped)
	}
	if lastSet {
		if e2 := last.post(err); e2 != err {
			return 0, e2
		}
	}
	return casOut, err
}

func isRosmarTombstoneCasArtifact(err error) bool {
	return err != nil && strings.Contains(err.Error(), "Calling deleteBody=true when the document is a tombstone")
}
