// Package vsched is engine E1: a cooperative controlled scheduler plus a stateless, deviation-bounded,
// lowest-cost-first search over the schedules of a small multi-threaded harness that runs the real code.
//
// Threads are goroutines started by the engine for the functions a Scenario supplies. Exactly one controlled
// thread runs at a time; it runs until its next point. Points are raised by the vsync / vatomic shims (the
// package under test is compiled against them through an import rewrite), by the vstore stepping datastore,
// and by explicit Point/Choose calls. Goroutines the engine did not start pass straight through every shim.
//
// The engine keeps a lock table for shim mutexes so that a thread whose next operation would block is
// disabled instead of run. A deviation is a preemption (switching away from a thread that could continue)
// or a non-default environment answer (Choose). Executions always run to completion.
package vsched

import (
	"fmt"
	"os"
	"runtime"
	"strconv"
	"strings"
	"sync"
	"sync/atomic"
	"time"

	"github.com/couchbase/sync_gateway/verifshim/vreport"
)

type Kind uint8

const (
	KStart Kind = iota
	KMutex
	KAtomic
	KStore
	KUser
	KOnce
)

func (k Kind) String() string {
	return [...]string{"start", "mutex", "atomic", "store", "user", "once"}[k]
}

type opType uint8

const (
	opNone opType = iota
	opLock
	opRLock
	opOnce
)

type thread struct {
	id      int
	gid     int64
	wake    chan struct{}
	done    bool
	pendOp  opType
	pendObj uintptr
	label   string
}

type lockState struct {
	writer  *thread
	readers map[*thread]int
}

// Step is one recorded choice point of an execution.
type Step struct {
	N      int    // number of alternatives
	Chosen int    // index taken
	Free   bool   // true if alternatives cost nothing (running thread was not enabled, or first start)
	Env    bool   // environment choice (Choose) rather than a thread switch
	Label  string // operation label of the chosen alternative / choice label
}

type Exec struct {
	mu        sync.Mutex
	threads   []*thread
	byGid     map[int64]*thread
	cur       *thread
	prefix    []PrefixEntry
	Steps     []Step
	locks     map[uintptr]*lockState
	filter    func(Kind) bool
	freeRun   atomic.Bool
	Deadlock  bool
	Stalled   bool
	Diverged  string
	doneCh    chan struct{}
	nDone     int
	Trace     []string // labels of every point in execution order (thread:label)
	traceOn   bool
	maxPoints int
	nPoints   int
}

type PrefixEntry struct {
	C int `json:"c"`
	N int `json:"n"`
}

var current atomic.Pointer[Exec]

func goid() int64 {
	var buf [64]byte
	n := runtime.Stack(buf[:], false)
	// "goroutine 123 [running]:"
	s := buf[10:n]
	i := 0
	for i < len(s) && s[i] >= '0' && s[i] <= '9' {
		i++
	}
	id, _ := strconv.ParseInt(string(s[:i]), 10, 64)
	return id
}

// GoID returns the id of the calling goroutine.
func GoID() int64 { return goid() }

// me returns the controlled thread of the calling goroutine in the active execution, or nil.
func me() (*Exec, *thread) {
	e := current.Load()
	if e == nil || e.freeRun.Load() {
		return nil, nil
	}
	g := goid()
	e.mu.Lock()
	t := e.byGid[g]
	e.mu.Unlock()
	if t == nil {
		return nil, nil
	}
	return e, t
}

// Controlled reports whether the caller is a controlled thread of an active execution.
func Controlled() bool {
	_, t := me()
	return t != nil
}

// ThreadID returns the controlled thread id of the caller, or -1.
func ThreadID() int {
	_, t := me()
	if t == nil {
		return -1
	}
	return t.id
}

func (e *Exec) blocked(t *thread) bool {
	switch t.pendOp {
	case opLock, opOnce:
		ls := e.locks[t.pendObj]
		if ls == nil {
			return false
		}
		if ls.writer != nil && ls.writer != t {
			return true
		}
		for r, n := range ls.readers {
			if r != t && n > 0 {
				return true
			}
		}
	case opRLock:
		ls := e.locks[t.pendObj]
		if ls == nil {
			return false
		}
		if ls.writer != nil && ls.writer != t {
			return true
		}
	}
	return false
}

func (e *Exec) grant(t *thread) {
	switch t.pendOp {
	case opLock, opOnce:
		ls := e.locks[t.pendObj]
		if ls == nil {
			ls = &lockState{readers: map[*thread]int{}}
			e.locks[t.pendObj] = ls
		}
		ls.writer = t
	case opRLock:
		ls := e.locks[t.pendObj]
		if ls == nil {
			ls = &lockState{readers: map[*thread]int{}}
			e.locks[t.pendObj] = ls
		}
		ls.readers[t]++
	}
	t.pendOp = opNone
}

// pick chooses the next thread to run. Must hold e.mu. choice==true records a choice point when there are
// at least two enabled threads.
func (e *Exec) pick(isChoice bool) *thread {
	var enabled []*thread
	curEnabled := false
	if e.cur != nil && !e.cur.done && !e.blocked(e.cur) {
		enabled = append(enabled, e.cur)
		curEnabled = true
	}
	for _, t := range e.threads {
		if t == e.cur || t.done || e.blocked(t) {
			continue
		}
		enabled = append(enabled, t)
	}
	if len(enabled) == 0 {
		return nil
	}
	idx := 0
	if len(enabled) > 1 && (isChoice || !curEnabled) {
		i := len(e.Steps)
		if i < len(e.prefix) {
			idx = e.prefix[i].C
			if e.prefix[i].N != len(enabled) || idx >= len(enabled) {
				e.Diverged = fmt.Sprintf("step %d: replay expected %d alternatives, found %d", i, e.prefix[i].N, len(enabled))
				idx = 0
			}
		}
		e.Steps = append(e.Steps, Step{N: len(enabled), Chosen: idx, Free: !curEnabled, Label: enabled[idx].label})
	}
	return enabled[idx]
}

func (e *Exec) switchTo(t *thread, next *thread) {
	// called with e.mu held; releases it
	if next == nil {
		// deadlock among controlled threads: let everything free-run on the real primitives
		e.Deadlock = true
		e.freeRun.Store(true)
		e.mu.Unlock()
		for _, o := range e.threads {
			if o != t && !o.done {
				select {
				case o.wake <- struct{}{}:
				default:
				}
			}
		}
		return
	}
	e.grant(next)
	if next == t {
		e.mu.Unlock()
		return
	}
	e.cur = next
	e.mu.Unlock()
	next.wake <- struct{}{}
	if t != nil && !t.done {
		<-t.wake
	}
}

func (e *Exec) yield(t *thread, kind Kind, op opType, obj uintptr, label string) {
	e.mu.Lock()
	t.pendOp, t.pendObj, t.label = op, obj, label
	if e.traceOn {
		e.Trace = append(e.Trace, fmt.Sprintf("t%d:%s", t.id, label))
	}
	e.nPoints++
	isChoice := e.filter == nil || e.filter(kind)
	if e.maxPoints > 0 && e.nPoints > e.maxPoints {
		isChoice = false
	}
	if !isChoice && !e.blocked(t) {
		e.grant(t)
		e.mu.Unlock()
		return
	}
	next := e.pick(isChoice)
	e.switchTo(t, next)
}

// Point is a scheduling point before a shared-state operation.
func Point(kind Kind, label string) {
	e, t := me()
	if t == nil {
		return
	}
	e.yield(t, kind, opNone, 0, label)
}

// Choose is an environment choice with n alternatives (0 is the default answer; any other costs one
// deviation). Outside a controlled thread it returns 0.
func Choose(label string, n int) int {
	e, t := me()
	if t == nil || n < 2 {
		return 0
	}
	e.mu.Lock()
	defer e.mu.Unlock()
	idx := 0
	i := len(e.Steps)
	if i < len(e.prefix) {
		idx = e.prefix[i].C
		if e.prefix[i].N != n || idx >= n {
			e.Diverged = fmt.Sprintf("step %d: replay expected %d env alternatives, found %d (%s)", i, e.prefix[i].N, n, label)
			idx = 0
		}
	}
	e.Steps = append(e.Steps, Step{N: n, Chosen: idx, Env: true, Label: label})
	if e.traceOn {
		e.Trace = append(e.Trace, fmt.Sprintf("t%d:choose:%s=%d", t.id, label, idx))
	}
	return idx
}

// ---- lock table entry points used by vsync

func BeforeLock(obj uintptr, write bool, label string) bool {
	e, t := me()
	if t == nil {
		return false
	}
	op := opLock
	if !write {
		op = opRLock
	}
	e.yield(t, KMutex, op, obj, label)
	return !e.freeRun.Load()
}

// TryAcquire is used by TryLock: a point, then a non-blocking acquisition in the lock table.
func TryAcquire(obj uintptr, write bool, label string) (controlled bool, ok bool) {
	e, t := me()
	if t == nil {
		return false, false
	}
	e.yield(t, KMutex, opNone, 0, label)
	e.mu.Lock()
	defer e.mu.Unlock()
	if write {
		t.pendOp = opLock
	} else {
		t.pendOp = opRLock
	}
	t.pendObj = obj
	if e.blocked(t) {
		t.pendOp = opNone
		return true, false
	}
	e.grant(t)
	return true, true
}

func AfterUnlock(obj uintptr, write bool) {
	e := current.Load()
	if e == nil {
		return
	}
	g := goid()
	e.mu.Lock()
	t := e.byGid[g]
	if t != nil {
		if ls := e.locks[obj]; ls != nil {
			if write {
				if ls.writer == t {
					ls.writer = nil
				}
			} else if ls.readers[t] > 0 {
				ls.readers[t]--
			}
		}
	}
	e.mu.Unlock()
}

// ---- running one execution

type Scenario struct {
	Threads []func()
	// Check runs after all threads have finished, with the scheduler off. It returns fingerprint -> detail.
	Check   func(x *Exec) map[string]string
	Cleanup func()
}

func runOne(sc Scenario, prefix []PrefixEntry, filter func(Kind) bool, trace bool, maxPoints int) *Exec {
	e := &Exec{byGid: map[int64]*thread{}, prefix: prefix, locks: map[uintptr]*lockState{}, filter: filter,
		doneCh: make(chan struct{}), traceOn: trace, maxPoints: maxPoints}
	n := len(sc.Threads)
	var reg sync.WaitGroup
	reg.Add(n)
	for i := 0; i < n; i++ {
		t := &thread{id: i, wake: make(chan struct{}, 1), label: "start"}
		e.threads = append(e.threads, t)
		fn := sc.Threads[i]
		go func() {
			t.gid = goid()
			e.mu.Lock()
			e.byGid[t.gid] = t
			e.mu.Unlock()
			reg.Done()
			<-t.wake
			func() {
				defer func() {
					if p := recover(); p != nil {
						e.mu.Lock()
						e.Diverged = fmt.Sprintf("panic in thread %d: %v", t.id, p)
						e.mu.Unlock()
					}
				}()
				fn()
			}()
			e.mu.Lock()
			t.done = true
			e.nDone++
			all := e.nDone == len(e.threads)
			if all {
				e.mu.Unlock()
				close(e.doneCh)
				return
			}
			if e.freeRun.Load() {
				e.mu.Unlock()
				return
			}
			next := e.pick(true)
			e.switchTo(t, next)
		}()
	}
	reg.Wait()
	current.Store(e)
	e.mu.Lock()
	first := e.pick(true)
	e.grant(first)
	e.cur = first
	e.mu.Unlock()
	first.wake <- struct{}{}
	select {
	case <-e.doneCh:
	case <-time.After(20 * time.Second):
		e.Stalled = true
		e.freeRun.Store(true)
		for _, o := range e.threads {
			select {
			case o.wake <- struct{}{}:
			default:
			}
		}
		select {
		case <-e.doneCh:
		case <-time.After(20 * time.Second):
		}
	}
	current.Store(nil)
	return e
}

// ---- search

type Config struct {
	Name      string
	Bound     int
	New       func() Scenario
	Filter    func(Kind) bool // which operation kinds are choice points (nil = all)
	MaxExecs  int             // per shard cap (0 = none)
	MaxPoints int             // beyond this many points an execution stops branching (0 = none)
	Whole     bool            // explore the whole tree in this shard (the caller shards by scenario)
	Replay    func(name string, prefix []PrefixEntry) any
}

type node struct {
	prefix []PrefixEntry
	cost   int
}

func labelsOf(x *Exec) string {
	var b strings.Builder
	for _, s := range x.Steps {
		fmt.Fprintf(&b, "%d/%d ", s.Chosen, s.N)
	}
	return b.String()
}

// Explore enumerates every execution of the scenario with at most cfg.Bound deviations, lowest cost first.
// The root's children are partitioned among shards.
func Explore(r *vreport.Report, cfg Config) {
	levels := make([][]node, cfg.Bound+1)
	levels[0] = []node{{}}
	execs := 0
	capped := false
	rootChild := 0
	for k := 0; k <= cfg.Bound && !capped; k++ {
		for qi := 0; qi < len(levels[k]); qi++ {
			nd := levels[k][qi]
			if r.Expired() {
				r.Cap(fmt.Sprintf("time budget reached in %s at deviation level %d (levels below %d complete)", cfg.Name, k, k))
				capped = true
				break
			}
			if cfg.MaxExecs > 0 && execs >= cfg.MaxExecs {
				r.Cap(fmt.Sprintf("execution cap %d reached in %s at deviation level %d", cfg.MaxExecs, cfg.Name, k))
				capped = true
				break
			}
			sc := cfg.New()
			x := runOne(sc, nd.prefix, cfg.Filter, execs < 3, cfg.MaxPoints)
			execs++
			isRoot := len(nd.prefix) == 0
			counted := !isRoot || r.Shard == 0 || cfg.Whole
			if x.Diverged != "" {
				r.Add("engine_divergences", 1)
				r.Cap("nondeterministic replay or panic in " + cfg.Name + ": " + x.Diverged)
				if sc.Cleanup != nil {
					sc.Cleanup()
				}
				continue
			}
			if x.Stalled {
				r.Add("stalled_executions", 1)
				r.Cap("an execution stalled on an un-hooked blocking operation in " + cfg.Name)
				if sc.Cleanup != nil {
					sc.Cleanup()
				}
				continue
			}
			if x.Deadlock {
				r.Add("deadlocks_observed", 1)
			}
			var viol map[string]string
			if sc.Check != nil {
				viol = sc.Check(x)
			}
			if sc.Cleanup != nil {
				sc.Cleanup()
			}
			if counted {
				r.Add("schedules", 1)
				r.Add("states", 1) // one node of the schedule tree = one distinct partial schedule, executed to completion
				r.Add(fmt.Sprintf("schedules_with_%d_deviations", nd.cost), 1)
				r.Add("evaluations", 1)
				r.Add("transitions", int64(len(x.Steps)))
				r.Add("traces_validated_against_impl", 1)
				r.Max("choice_points_per_execution", int64(len(x.Steps)))
				if len(x.Trace) > 0 && execs <= 2 {
					r.Sample(map[string]any{"scenario": cfg.Name, "deviations": nd.cost, "points": x.Trace})
				}
			}
			for fp, detail := range viol {
				var rep any
				if cfg.Replay != nil {
					rep = cfg.Replay(cfg.Name, nd.prefix)
				}
				r.Violate(fp, fmt.Sprintf("[%s, %d deviation(s), choices %s] %s", cfg.Name, nd.cost, labelsOf(x), detail), rep)
			}
			// children
			for i := len(nd.prefix); i < len(x.Steps); i++ {
				st := x.Steps[i]
				for alt := 1; alt < st.N; alt++ {
					cost := nd.cost
					if !st.Free {
						cost++
					}
					if cost > cfg.Bound {
						continue
					}
					if isRoot && !cfg.Whole {
						rootChild++
						if !r.Mine(rootChild) {
							continue
						}
					}
					p := make([]PrefixEntry, 0, i+1)
					for j := 0; j < i; j++ {
						p = append(p, PrefixEntry{C: x.Steps[j].Chosen, N: x.Steps[j].N})
					}
					p = append(p, PrefixEntry{C: alt, N: st.N})
					levels[cost] = append(levels[cost], node{prefix: p, cost: cost})
				}
			}
		}
		if !capped {
			r.Max("deviation_bound_completed", int64(k))
		}
		levels[k] = nil
	}
}

// ReplayOne re-executes exactly one schedule and reports what its check observes.
func ReplayOne(r *vreport.Report, cfg Config, prefix []PrefixEntry) *Exec {
	sc := cfg.New()
	x := runOne(sc, prefix, cfg.Filter, true, cfg.MaxPoints)
	var viol map[string]string
	if sc.Check != nil && x.Diverged == "" && !x.Stalled {
		viol = sc.Check(x)
	}
	if sc.Cleanup != nil {
		sc.Cleanup()
	}
	r.Add("schedules", 1)
	r.Add("evaluations", 1)
	fmt.Printf("REPLAY-TRACE scenario=%s\n", cfg.Name)
	for _, l := range x.Trace {
		fmt.Printf("  %s\n", l)
	}
	for fp, detail := range viol {
		var rep any
		if cfg.Replay != nil {
			rep = cfg.Replay(cfg.Name, prefix)
		}
		r.Violate(fp, detail, rep)
		fmt.Printf("REPLAY-VIOLATION %s: %s\n", fp, detail)
	}
	if x.Diverged != "" {
		r.Cap("replay diverged: " + x.Diverged)
	}
	return x
}

// FreeRun executes the scenario's threads as ordinary goroutines under the Go scheduler, with no controlled
// execution active (every shim passes straight through), then runs Check and Cleanup. It exists for the separate
// race-detector pass: under the cooperative scheduler every hand-off is a happens-before edge that blinds the
// detector, so the same harness bodies are also run free in a binary built with -race.
func FreeRun(sc Scenario) map[string]string {
	done := make(chan struct{}, len(sc.Threads))
	for _, th := range sc.Threads {
		th := th
		go func() {
			defer func() { done <- struct{}{} }()
			th()
		}()
	}
	for range sc.Threads {
		<-done
	}
	var viol map[string]string
	if sc.Check != nil {
		viol = sc.Check(&Exec{})
	}
	if sc.Cleanup != nil {
		sc.Cleanup()
	}
	return viol
}

// FreeRuns returns how many free-running repetitions per scenario the environment asks for (0 = controlled exploration).
func FreeRuns() int {
	n := 0
	_, _ = fmt.Sscanf(os.Getenv("VERIF_FREERUN"), "%d", &n)
	return n
}

// FreePass is the race-detector pass for one scenario: FreeRuns() free-running executions of the scenario's thread
// bodies (fresh scenario each time). It reports true when the pass is active, in which case the caller skips the
// controlled exploration. add is the report's counter function.
func FreePass(add func(string, int64), build func() Scenario) bool {
	n := FreeRuns()
	if n == 0 {
		return false
	}
	for k := 0; k < n; k++ {
		if v := FreeRun(build()); len(v) > 0 {
			add("free_run_oracle_violations_not_replayable", 1)
			for fp := range v {
				add("free_run_oracle/"+fp, 1)
			}
		}
		add("free_running_executions", 1)
		add("evaluations", 1)
	}
	add("scenarios", 1)
	add("distinct_nontrivial", 1)
	return true
}
