// Package vsync is a drop-in replacement for the parts of package sync that the packages under test use.
// Mutex, RWMutex and Once report to the vsched lock table and raise scheduling points when the caller is a
// controlled thread of an active exploration; for every other goroutine, and when no exploration is
// active, they are plain wrappers. Everything else is an alias of the standard type.
package vsync

import (
	"sync"
	"unsafe"

	"github.com/couchbase/sync_gateway/verifshim/vsched"
)

type (
	WaitGroup = sync.WaitGroup
	Cond      = sync.Cond
	Map       = sync.Map
	Pool      = sync.Pool
	Locker    = sync.Locker
)

func NewCond(l Locker) *Cond { return sync.NewCond(l) }

func OnceFunc(f func()) func()                                 { return sync.OnceFunc(f) }
func OnceValue[T any](f func() T) func() T                     { return sync.OnceValue(f) }
func OnceValues[T1, T2 any](f func() (T1, T2)) func() (T1, T2) { return sync.OnceValues(f) }

type Mutex struct {
	m sync.Mutex
}

func (m *Mutex) Lock() {
	vsched.BeforeLock(uintptr(unsafe.Pointer(m)), true, "Mutex.Lock")
	m.m.Lock()
}

func (m *Mutex) TryLock() bool {
	if controlled, ok := vsched.TryAcquire(uintptr(unsafe.Pointer(m)), true, "Mutex.TryLock"); controlled {
		if !ok {
			return false
		}
		if m.m.TryLock() {
			return true
		}
		vsched.AfterUnlock(uintptr(unsafe.Pointer(m)), true)
		return false
	}
	return m.m.TryLock()
}

func (m *Mutex) Unlock() {
	m.m.Unlock()
	vsched.AfterUnlock(uintptr(unsafe.Pointer(m)), true)
}

type RWMutex struct {
	m sync.RWMutex
}

func (m *RWMutex) Lock() {
	vsched.BeforeLock(uintptr(unsafe.Pointer(m)), true, "RWMutex.Lock")
	m.m.Lock()
}

func (m *RWMutex) Unlock() {
	m.m.Unlock()
	vsched.AfterUnlock(uintptr(unsafe.Pointer(m)), true)
}

func (m *RWMutex) RLock() {
	vsched.BeforeLock(uintptr(unsafe.Pointer(m)), false, "RWMutex.RLock")
	m.m.RLock()
}

func (m *RWMutex) RUnlock() {
	m.m.RUnlock()
	vsched.AfterUnlock(uintptr(unsafe.Pointer(m)), false)
}

func (m *RWMutex) TryLock() bool {
	if controlled, ok := vsched.TryAcquire(uintptr(unsafe.Pointer(m)), true, "RWMutex.TryLock"); controlled {
		if !ok {
			return false
		}
		if m.m.TryLock() {
			return true
		}
		vsched.AfterUnlock(uintptr(unsafe.Pointer(m)), true)
		return false
	}
	return m.m.TryLock()
}

func (m *RWMutex) TryRLock() bool {
	if controlled, ok := vsched.TryAcquire(uintptr(unsafe.Pointer(m)), false, "RWMutex.TryRLock"); controlled {
		if !ok {
			return false
		}
		if m.m.TryRLock() {
			return true
		}
		vsched.AfterUnlock(uintptr(unsafe.Pointer(m)), false)
		return false
	}
	return m.m.TryRLock()
}

type rlocker RWMutex

func (r *rlocker) Lock()   { (*RWMutex)(r).RLock() }
func (r *rlocker) Unlock() { (*RWMutex)(r).RUnlock() }

func (m *RWMutex) RLocker() Locker { return (*rlocker)(m) }

// Once: the body runs under a table entry keyed by the Once, so a second controlled caller is disabled
// (not run) until the first has finished, exactly like sync.Once blocks it.
type Once struct {
	o sync.Once
}

func (o *Once) Do(f func()) {
	obj := uintptr(unsafe.Pointer(o))
	if vsched.BeforeLock(obj, true, "Once.Do") {
		defer vsched.AfterUnlock(obj, true)
	}
	o.o.Do(f)
}
