// Package vstate is engine E2: explicit-state breadth-first search whose transition function is the real
// method call. Live objects cannot be cloned, so a state is represented by the event history that reaches
// it; a successor is computed by building a fresh real instance, replaying the history and applying one
// more event. States are deduplicated by a canonical string computed from the real object's private
// fields together with the reference model.
package vstate

import (
	"crypto/sha1"
	"encoding/hex"
	"encoding/json"
	"fmt"

	"github.com/couchbase/sync_gateway/verifshim/vreport"
)

// Instance is one fresh real object plus its reference model.
type Instance[E any] interface {
	// Enabled returns the finite menu of events enabled in the current state (computed from the model).
	Enabled() []E
	// Apply performs the event on the real object and the model and returns the violations of the
	// property observed on this transition / in the resulting state (nil if none). fingerprint -> detail.
	Apply(e E) map[string]string
	// Canon is the canonical form of the current state: merged states must have equal futures.
	Canon() string
	// Close releases the instance.
	Close()
}

type Config[E any] struct {
	Name       string // config label, part of fingerprints' replay
	New        func() Instance[E]
	MaxDepth   int
	MaxStates  int // per shard cap (0 = none); hitting it clears exhaustive
	ShardDepth int // histories of exactly this length are partitioned among shards (0 = whole search in every shard that owns the config)
	Replay     func(cfgName string, hist []E) any
}

type Result struct {
	States      int
	Transitions int
	MaxDepth    int
	Complete    bool // fixpoint reached (frontier empty) before MaxDepth
}

func hashOf(s string) string {
	h := sha1.Sum([]byte(s))
	return hex.EncodeToString(h[:9])
}

// Explore runs the BFS. Counters written: states, transitions, traces_validated_against_impl (every
// transition is an execution of the real code), evaluations.
func Explore[E any](r *vreport.Report, cfg Config[E]) Result {
	res := Result{}
	root := cfg.New()
	seen := map[string]struct{}{}
	rc := hashOf(cfg.Name + "|" + root.Canon())
	seen[rc] = struct{}{}
	root.Close()
	count := func(depth int) bool { return cfg.ShardDepth == 0 || depth > cfg.ShardDepth || r.Shard == 0 }
	if count(0) {
		r.Add("states", 1)
		r.Distinct("state_hashes", rc)
		res.States++
	}
	frontier := [][]E{{}}
	depth := 0
	for len(frontier) > 0 && depth < cfg.MaxDepth {
		var next [][]E
		for _, hist := range frontier {
			if r.Expired() {
				r.Cap(fmt.Sprintf("time budget reached in %s at depth %d", cfg.Name, depth))
				return res
			}
			base := cfg.New()
			for _, e := range hist {
				base.Apply(e)
			}
			menu := base.Enabled()
			base.Close()
			for _, ev := range menu {
				nh := append(append(make([]E, 0, len(hist)+1), hist...), ev)
				if cfg.ShardDepth > 0 && len(nh) == cfg.ShardDepth {
					b, _ := json.Marshal(nh)
					if !r.MineKey(cfg.Name + string(b)) {
						continue
					}
				}
				inst := cfg.New()
				for _, e := range hist {
					inst.Apply(e)
				}
				viol := inst.Apply(ev)
				c := hashOf(cfg.Name + "|" + inst.Canon())
				inst.Close()
				cnt := count(len(nh))
				if cnt {
					r.Add("transitions", 1)
					r.Add("traces_validated_against_impl", 1)
					r.Add("evaluations", 1)
					res.Transitions++
				}
				for fp, detail := range viol {
					var rep any
					if cfg.Replay != nil {
						rep = cfg.Replay(cfg.Name, nh)
					}
					r.Violate(fp, detail, rep)
				}
				if _, ok := seen[c]; ok {
					continue
				}
				seen[c] = struct{}{}
				if cnt {
					r.Add("states", 1)
					res.States++
					if res.States <= 400000 {
						r.Distinct("state_hashes", c)
					} else {
						r.Add("state_hash_overflow", 1)
					}
					if res.States == 2 || res.States == 40 || res.States%9973 == 1 {
						r.Sample(map[string]any{"config": cfg.Name, "history": nh})
					}
				}
				if cfg.MaxStates > 0 && len(seen) >= cfg.MaxStates {
					r.Cap(fmt.Sprintf("state cap %d reached in %s at depth %d", cfg.MaxStates, cfg.Name, depth+1))
					return res
				}
				next = append(next, nh)
			}
		}
		frontier = next
		depth++
		res.MaxDepth = depth
		r.Max("depth", int64(depth))
	}
	res.Complete = len(frontier) == 0
	if !res.Complete {
		r.Add("configs_depth_bounded", 1)
	} else {
		r.Add("configs_fixpoint", 1)
	}
	return res
}

// ReplayHistory re-executes one history on a fresh instance and reports what it observes.
func ReplayHistory[E any](r *vreport.Report, cfg Config[E], hist []E) {
	inst := cfg.New()
	defer inst.Close()
	for i, e := range hist {
		viol := inst.Apply(e)
		r.Add("transitions", 1)
		r.Add("evaluations", 1)
		for fp, detail := range viol {
			var rep any
			if cfg.Replay != nil {
				rep = cfg.Replay(cfg.Name, hist[:i+1])
			}
			r.Violate(fp, detail, rep)
		}
	}
}
