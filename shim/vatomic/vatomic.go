// Package vatomic is a drop-in replacement for the parts of sync/atomic that the files listed for the
// atomic rewrite use. Every operation raises a scheduling point (kind atomic) before it executes when the
// caller is a controlled thread; otherwise it is the plain operation.
package vatomic

import (
	"sync/atomic"
	"unsafe"

	"github.com/couchbase/sync_gateway/verifshim/vsched"
)

func pt(op string) { vsched.Point(vsched.KAtomic, op) }

type Value = atomic.Value

type Int32 struct{ v atomic.Int32 }

func (x *Int32) Load() int32        { pt("Int32.Load"); return x.v.Load() }
func (x *Int32) Store(n int32)      { pt("Int32.Store"); x.v.Store(n) }
func (x *Int32) Swap(n int32) int32 { pt("Int32.Swap"); return x.v.Swap(n) }
func (x *Int32) Add(d int32) int32  { pt("Int32.Add"); return x.v.Add(d) }
func (x *Int32) CompareAndSwap(o, n int32) bool {
	pt("Int32.CompareAndSwap")
	return x.v.CompareAndSwap(o, n)
}

type Int64 struct{ v atomic.Int64 }

func (x *Int64) Load() int64        { pt("Int64.Load"); return x.v.Load() }
func (x *Int64) Store(n int64)      { pt("Int64.Store"); x.v.Store(n) }
func (x *Int64) Swap(n int64) int64 { pt("Int64.Swap"); return x.v.Swap(n) }
func (x *Int64) Add(d int64) int64  { pt("Int64.Add"); return x.v.Add(d) }
func (x *Int64) CompareAndSwap(o, n int64) bool {
	pt("Int64.CompareAndSwap")
	return x.v.CompareAndSwap(o, n)
}

type Uint32 struct{ v atomic.Uint32 }

func (x *Uint32) Load() uint32         { pt("Uint32.Load"); return x.v.Load() }
func (x *Uint32) Store(n uint32)       { pt("Uint32.Store"); x.v.Store(n) }
func (x *Uint32) Swap(n uint32) uint32 { pt("Uint32.Swap"); return x.v.Swap(n) }
func (x *Uint32) Add(d uint32) uint32  { pt("Uint32.Add"); return x.v.Add(d) }
func (x *Uint32) CompareAndSwap(o, n uint32) bool {
	pt("Uint32.CompareAndSwap")
	return x.v.CompareAndSwap(o, n)
}

type Uint64 struct{ v atomic.Uint64 }

func (x *Uint64) Load() uint64         { pt("Uint64.Load"); return x.v.Load() }
func (x *Uint64) Store(n uint64)       { pt("Uint64.Store"); x.v.Store(n) }
func (x *Uint64) Swap(n uint64) uint64 { pt("Uint64.Swap"); return x.v.Swap(n) }
func (x *Uint64) Add(d uint64) uint64  { pt("Uint64.Add"); return x.v.Add(d) }
func (x *Uint64) CompareAndSwap(o, n uint64) bool {
	pt("Uint64.CompareAndSwap")
	return x.v.CompareAndSwap(o, n)
}

type Bool struct{ v atomic.Bool }

func (x *Bool) Load() bool       { pt("Bool.Load"); return x.v.Load() }
func (x *Bool) Store(b bool)     { pt("Bool.Store"); x.v.Store(b) }
func (x *Bool) Swap(b bool) bool { pt("Bool.Swap"); return x.v.Swap(b) }
func (x *Bool) CompareAndSwap(o, n bool) bool {
	pt("Bool.CompareAndSwap")
	return x.v.CompareAndSwap(o, n)
}

type Pointer[T any] struct{ v atomic.Pointer[T] }

func (x *Pointer[T]) Load() *T     { pt("Pointer.Load"); return x.v.Load() }
func (x *Pointer[T]) Store(p *T)   { pt("Pointer.Store"); x.v.Store(p) }
func (x *Pointer[T]) Swap(p *T) *T { pt("Pointer.Swap"); return x.v.Swap(p) }
func (x *Pointer[T]) CompareAndSwap(o, n *T) bool {
	pt("Pointer.CompareAndSwap")
	return x.v.CompareAndSwap(o, n)
}

func AddInt32(a *int32, d int32) int32      { pt("AddInt32"); return atomic.AddInt32(a, d) }
func AddInt64(a *int64, d int64) int64      { pt("AddInt64"); return atomic.AddInt64(a, d) }
func AddUint32(a *uint32, d uint32) uint32  { pt("AddUint32"); return atomic.AddUint32(a, d) }
func AddUint64(a *uint64, d uint64) uint64  { pt("AddUint64"); return atomic.AddUint64(a, d) }
func LoadInt32(a *int32) int32              { pt("LoadInt32"); return atomic.LoadInt32(a) }
func LoadInt64(a *int64) int64              { pt("LoadInt64"); return atomic.LoadInt64(a) }
func LoadUint32(a *uint32) uint32           { pt("LoadUint32"); return atomic.LoadUint32(a) }
func LoadUint64(a *uint64) uint64           { pt("LoadUint64"); return atomic.LoadUint64(a) }
func StoreInt32(a *int32, v int32)          { pt("StoreInt32"); atomic.StoreInt32(a, v) }
func StoreInt64(a *int64, v int64)          { pt("StoreInt64"); atomic.StoreInt64(a, v) }
func StoreUint32(a *uint32, v uint32)       { pt("StoreUint32"); atomic.StoreUint32(a, v) }
func StoreUint64(a *uint64, v uint64)       { pt("StoreUint64"); atomic.StoreUint64(a, v) }
func SwapInt32(a *int32, v int32) int32     { pt("SwapInt32"); return atomic.SwapInt32(a, v) }
func SwapInt64(a *int64, v int64) int64     { pt("SwapInt64"); return atomic.SwapInt64(a, v) }
func SwapUint32(a *uint32, v uint32) uint32 { pt("SwapUint32"); return atomic.SwapUint32(a, v) }
func SwapUint64(a *uint64, v uint64) uint64 { pt("SwapUint64"); return atomic.SwapUint64(a, v) }
func CompareAndSwapInt32(a *int32, o, n int32) bool {
	pt("CompareAndSwapInt32")
	return atomic.CompareAndSwapInt32(a, o, n)
}
func CompareAndSwapInt64(a *int64, o, n int64) bool {
	pt("CompareAndSwapInt64")
	return atomic.CompareAndSwapInt64(a, o, n)
}
func CompareAndSwapUint32(a *uint32, o, n uint32) bool {
	pt("CompareAndSwapUint32")
	return atomic.CompareAndSwapUint32(a, o, n)
}
func CompareAndSwapUint64(a *uint64, o, n uint64) bool {
	pt("CompareAndSwapUint64")
	return atomic.CompareAndSwapUint64(a, o, n)
}
func LoadPointer(a *unsafe.Pointer) unsafe.Pointer { pt("LoadPointer"); return atomic.LoadPointer(a) }
func StorePointer(a *unsafe.Pointer, v unsafe.Pointer) {
	pt("StorePointer")
	atomic.StorePointer(a, v)
}
