// Package vreport is the shard-side half of the /verif driver: every harness (a Go test overlaid into a
// sync_gateway package) opens a Report, counts what it explored, records violations with a replayable
// case, and writes one JSON file per shard into $VERIF_OUT. The driver (/verif/lib/vcheck.py) merges the
// shard files into /verif/evidence/<id>.json. Nothing here is a constant: every number is counted.
package vreport

import (
	"crypto/sha1"
	"encoding/hex"
	"encoding/json"
	"fmt"
	"os"
	"path/filepath"
	"sort"
	"strconv"
	"strings"
	"sync"
	"time"
)

type Violation struct {
	Fingerprint string `json:"fingerprint"`
	Detail      string `json:"detail"`
	Replay      any    `json:"replay"`
}

type Report struct {
	mu          sync.Mutex
	Property    string
	Shard       int
	NShards     int
	Tier        string
	Seed        int64
	start       time.Time
	budget      time.Duration
	counters    map[string]int64
	sets        map[string]map[string]struct{}
	samples     []any
	sampleCap   int
	violations  []Violation
	vseen       map[string]bool
	exhaustive  bool
	caps        []string
	rule        string
	assumptions []string
	notes       map[string]any
	replayPath  string
}

// Begin reads the worker environment set by the driver. Without a driver (plain `go test`) it behaves as
// shard 0 of 1, tier quick.
func Begin(property string) *Report {
	r := &Report{Property: property, NShards: 1, Tier: "quick", start: time.Now(), exhaustive: true,
		counters: map[string]int64{}, sets: map[string]map[string]struct{}{}, vseen: map[string]bool{},
		notes: map[string]any{}, sampleCap: 6}
	if s := os.Getenv("VERIF_SHARD"); s != "" {
		parts := strings.Split(s, "/")
		if len(parts) == 2 {
			r.Shard, _ = strconv.Atoi(parts[0])
			r.NShards, _ = strconv.Atoi(parts[1])
		}
	}
	if r.NShards < 1 {
		r.NShards = 1
	}
	if t := os.Getenv("VERIF_TIER"); t != "" {
		r.Tier = t
	}
	if s := os.Getenv("VERIF_SEED"); s != "" {
		r.Seed, _ = strconv.ParseInt(s, 10, 64)
	}
	b := 150
	if r.Tier == "thorough" {
		b = 1500
	}
	if s := os.Getenv("VERIF_BUDGET_S"); s != "" {
		if v, err := strconv.Atoi(s); err == nil {
			b = v
		}
	}
	r.budget = time.Duration(b) * time.Second
	r.replayPath = os.Getenv("VERIF_REPLAY")
	return r
}

func (r *Report) Thorough() bool { return r.Tier == "thorough" }

// Mine reports whether case number i belongs to this shard.
func (r *Report) Mine(i int) bool { return i%r.NShards == r.Shard }

// MineKey shards by a stable hash of a string key.
func (r *Report) MineKey(k string) bool {
	h := sha1.Sum([]byte(k))
	return int(uint32(h[0])<<8|uint32(h[1]))%r.NShards == r.Shard
}

// Expired is the internal deadline: a harness that sees it stops enumerating, calls Cap and exits 0 with
// exhaustive=false. It is never an oracle.
func (r *Report) Expired() bool { return time.Since(r.start) > r.budget }

func (r *Report) Elapsed() time.Duration { return time.Since(r.start) }

func (r *Report) Add(counter string, n int64) {
	r.mu.Lock()
	r.counters[counter] += n
	r.mu.Unlock()
}

func (r *Report) Get(counter string) int64 {
	r.mu.Lock()
	defer r.mu.Unlock()
	return r.counters[counter]
}

// Max records the maximum value seen for a counter (merged across shards with max, by the "max_" prefix).
func (r *Report) Max(counter string, n int64) {
	r.mu.Lock()
	if n > r.counters["max_"+counter] {
		r.counters["max_"+counter] = n
	}
	r.mu.Unlock()
}

// Distinct adds key to a named set; the driver reports the size of the union over shards.
func (r *Report) Distinct(set, key string) {
	r.mu.Lock()
	m := r.sets[set]
	if m == nil {
		m = map[string]struct{}{}
		r.sets[set] = m
	}
	if len(key) > 40 {
		h := sha1.Sum([]byte(key))
		key = hex.EncodeToString(h[:10])
	}
	m[key] = struct{}{}
	r.mu.Unlock()
}

func (r *Report) Sample(v any) {
	r.mu.Lock()
	if len(r.samples) < r.sampleCap {
		r.samples = append(r.samples, v)
	}
	r.mu.Unlock()
}

func (r *Report) Rule(s string) { r.mu.Lock(); r.rule = s; r.mu.Unlock() }
func (r *Report) Assume(s string) {
	r.mu.Lock()
	r.assumptions = append(r.assumptions, s)
	r.mu.Unlock()
}
func (r *Report) Note(k string, v any) {
	r.mu.Lock()
	r.notes[k] = v
	r.mu.Unlock()
}

// Cap records that a bound other than the stated finite space stopped the run; clears exhaustive.
func (r *Report) Cap(reason string) {
	r.mu.Lock()
	r.exhaustive = false
	for _, c := range r.caps {
		if c == reason {
			r.mu.Unlock()
			return
		}
	}
	r.caps = append(r.caps, reason)
	r.mu.Unlock()
}

// Violate records a violation. fingerprint identifies the failing input / call site / history
// specifically (it is what known_findings.json matches on, by prefix); replay is the JSON case that
// `check <id> --replay` re-executes.
func (r *Report) Violate(fingerprint, detail string, replay any) {
	r.mu.Lock()
	defer r.mu.Unlock()
	r.counters["violations_raw"]++
	if r.vseen[fingerprint] {
		return
	}
	r.vseen[fingerprint] = true
	if len(r.violations) < 50 {
		if len(detail) > 4000 {
			detail = detail[:4000] + "…"
		}
		r.violations = append(r.violations, Violation{fingerprint, detail, replay})
	}
}

func (r *Report) NumViolations() int {
	r.mu.Lock()
	defer r.mu.Unlock()
	return len(r.violations)
}

// Replaying: if the driver passed a replay file, decode its "replay" member into out and return true.
func (r *Report) Replaying(out any) bool {
	if r.replayPath == "" {
		return false
	}
	b, err := os.ReadFile(r.replayPath)
	if err != nil {
		panic(fmt.Sprintf("vreport: cannot read replay file: %v", err))
	}
	var env struct {
		Replay json.RawMessage `json:"replay"`
	}
	if err := json.Unmarshal(b, &env); err != nil {
		panic(fmt.Sprintf("vreport: bad replay file: %v", err))
	}
	if err := json.Unmarshal(env.Replay, out); err != nil {
		panic(fmt.Sprintf("vreport: replay case does not decode: %v", err))
	}
	r.exhaustive = false
	return true
}

// ReplayKind returns the "kind" member of a replay case (harnesses with several sub-checks dispatch on it).
func (r *Report) ReplayKind() string {
	if r.replayPath == "" {
		return ""
	}
	var k struct {
		Kind string `json:"kind"`
	}
	r.Replaying(&k)
	return k.Kind
}

type fataler interface {
	Fatalf(format string, args ...any)
	Logf(format string, args ...any)
}

// Finish writes the shard file. Violations do NOT fail the Go test: the driver decides the exit code
// after matching known findings. Only failing to write the report is fatal.
func (r *Report) Finish(t fataler) {
	r.mu.Lock()
	defer r.mu.Unlock()
	sets := map[string][]string{}
	for name, m := range r.sets {
		l := make([]string, 0, len(m))
		for k := range m {
			l = append(l, k)
		}
		sort.Strings(l)
		sets[name] = l
	}
	out := map[string]any{
		"property":    r.Property,
		"shard":       r.Shard,
		"nshards":     r.NShards,
		"tier":        r.Tier,
		"seed":        r.Seed,
		"counters":    r.counters,
		"sets":        sets,
		"samples":     r.samples,
		"violations":  r.violations,
		"exhaustive":  r.exhaustive,
		"caps":        r.caps,
		"rule":        r.rule,
		"assumptions": r.assumptions,
		"notes":       r.notes,
		"wall_s":      time.Since(r.start).Seconds(),
	}
	b, err := json.Marshal(out)
	if err != nil {
		t.Fatalf("vreport: marshal: %v", err)
	}
	dir := os.Getenv("VERIF_OUT")
	if dir == "" {
		t.Logf("vreport (no VERIF_OUT): %s", string(b))
		for _, v := range r.violations {
			t.Logf("VIOLATION %s: %s", v.Fingerprint, v.Detail)
		}
		return
	}
	p := filepath.Join(dir, fmt.Sprintf("shard-%d.json", r.Shard))
	if err := os.WriteFile(p+".tmp", b, 0o644); err != nil {
		t.Fatalf("vreport: write: %v", err)
	}
	if err := os.Rename(p+".tmp", p); err != nil {
		t.Fatalf("vreport: rename: %v", err)
	}
}

// Violations returns (fingerprint, detail) pairs recorded so far (used by harnesses that check in a scratch report).
func (r *Report) Violations() [][2]string {
	r.mu.Lock()
	defer r.mu.Unlock()
	out := make([][2]string, 0, len(r.violations))
	for _, v := range r.violations {
		out = append(out, [2]string{v.Fingerprint, v.Detail})
	}
	return out
}
