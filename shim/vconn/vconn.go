// Package vconn is the bootstrap-connection seam: a wrapper around base.BootstrapConnection whose metadata
// operations first call a hook. The hook is a scheduling point for vsched (two nodes racing configuration
// changes), counts operations, and implements "this node crashes at operation k": the k-th operation and
// every later one on this handle fail without being applied (optionally the k-th is applied first).
package vconn

import (
	"context"
	"errors"
	"fmt"
	"sync"

	"github.com/couchbase/sync_gateway/base"
	"github.com/couchbase/sync_gateway/verifshim/vsched"
)

var ErrNodeDead = errors.New("vconn: this node has crashed")

type Conn struct {
	base.BootstrapConnection
	mu         sync.Mutex
	Name       string
	Schedule   bool
	CrashAt    int  // index of the operation at which the node dies (-1 = never)
	CrashAfter bool // the operation at CrashAt is applied, then the node dies
	n          int
	dead       bool
	Log        []string
}

func Wrap(c base.BootstrapConnection, name string) *Conn {
	return &Conn{BootstrapConnection: c, Name: name, CrashAt: -1}
}

func (c *Conn) Ops() int   { c.mu.Lock(); defer c.mu.Unlock(); return c.n }
func (c *Conn) Dead() bool { c.mu.Lock(); defer c.mu.Unlock(); return c.dead }

// before returns (proceed, dieAfter)
func (c *Conn) before(op, key string) (bool, bool) {
	if c.Schedule {
		vsched.Point(vsched.KStore, c.Name+":"+op+":"+key)
	}
	c.mu.Lock()
	defer c.mu.Unlock()
	if c.dead {
		return false, false
	}
	i := c.n
	c.n++
	c.Log = append(c.Log, fmt.Sprintf("%d:%s(%s)", i, op, key))
	if c.CrashAt >= 0 && i == c.CrashAt {
		c.dead = true
		if c.CrashAfter {
			return true, true
		}
		return false, false
	}
	return true, false
}

func (c *Conn) GetMetadataDocument(ctx context.Context, bucket, key string, valuePtr any) (uint64, error) {
	ok, die := c.before("Get", key)
	if !ok {
		return 0, ErrNodeDead
	}
	cas, err := c.BootstrapConnection.GetMetadataDocument(ctx, bucket, key, valuePtr)
	if die {
		return 0, ErrNodeDead
	}
	return cas, err
}

func (c *Conn) InsertMetadataDocument(ctx context.Context, bucket, key string, value any) (uint64, error) {
	ok, die := c.before("Insert", key)
	if !ok {
		return 0, ErrNodeDead
	}
	cas, err := c.BootstrapConnection.InsertMetadataDocument(ctx, bucket, key, value)
	if die {
		return 0, ErrNodeDead
	}
	return cas, err
}

func (c *Conn) DeleteMetadataDocument(ctx context.Context, bucket, key string, cas uint64) error {
	ok, die := c.before("Delete", key)
	if !ok {
		return ErrNodeDead
	}
	err := c.BootstrapConnection.DeleteMetadataDocument(ctx, bucket, key, cas)
	if die {
		return ErrNodeDead
	}
	return err
}

func (c *Conn) UpdateMetadataDocument(ctx context.Context, bucket, key string, cb func([]byte, uint64) ([]byte, error)) (uint64, error) {
	ok, die := c.before("Update", key)
	if !ok {
		return 0, ErrNodeDead
	}
	cas, err := c.BootstrapConnection.UpdateMetadataDocument(ctx, bucket, key, cb)
	if die {
		return 0, ErrNodeDead
	}
	return cas, err
}

func (c *Conn) WriteMetadataDocument(ctx context.Context, bucket, key string, cas uint64, valuePtr any) (uint64, error) {
	ok, die := c.before("Write", key)
	if !ok {
		return 0, ErrNodeDead
	}
	casOut, err := c.BootstrapConnection.WriteMetadataDocument(ctx, bucket, key, cas, valuePtr)
	if die {
		return 0, ErrNodeDead
	}
	return casOut, err
}

func (c *Conn) TouchMetadataDocument(ctx context.Context, bucket, key string, property string, value string, cas uint64) (uint64, error) {
	ok, die := c.before("Touch", key)
	if !ok {
		return 0, ErrNodeDead
	}
	casOut, err := c.BootstrapConnection.TouchMetadataDocument(ctx, bucket, key, property, value, cas)
	if die {
		return 0, ErrNodeDead
	}
	return casOut, err
}

func (c *Conn) KeyExists(ctx context.Context, bucket, key string) (bool, error) {
	ok, die := c.before("KeyExists", key)
	if !ok {
		return false, ErrNodeDead
	}
	e, err := c.BootstrapConnection.KeyExists(ctx, bucket, key)
	if die {
		return false, ErrNodeDead
	}
	return e, err
}

func (c *Conn) GetDocument(ctx context.Context, bucket, docID string, rv any) (bool, error) {
	ok, die := c.before("GetDocument", docID)
	if !ok {
		return false, ErrNodeDead
	}
	e, err := c.BootstrapConnection.GetDocument(ctx, bucket, docID, rv)
	if die {
		return false, ErrNodeDead
	}
	return e, err
}

func (c *Conn) GetRawDocument(ctx context.Context, bucket, docID string) ([]byte, bool, error) {
	ok, die := c.before("GetRawDocument", docID)
	if !ok {
		return nil, false, ErrNodeDead
	}
	v, e, err := c.BootstrapConnection.GetRawDocument(ctx, bucket, docID)
	if die {
		return nil, false, ErrNodeDead
	}
	return v, e, err
}
